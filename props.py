"""property -> units / level / notes. Single source for ./check and for gen_manifest.py."""

PROPS = {
    "C16": {
        "title": "Opcode classification predicates agree with the SPIR-V specification",
        "units": {"quick": ["reflect"], "thorough": ["reflect"]},
        "level": "proof",
        "technique": "Verus contracts on the 13 extracted predicates of reflect.rs against O2 class sets; per-opcode lemmas for Builder terminators",
        "design_ref": "DESIGN.md §4 C16",
        "explanation": "Every predicate of grammar/reflect.rs is extracted verbatim on each run and proved equal "
                       "to a spec class set for all 787 Op values; derived predicates are proved to be the "
                       "documented unions; disjointness and builder-terminator agreement are lemmas over the contracts.",
        "assumptions": ["derived PartialEq on fieldless enums is structural equality (R19)",
                        "Rust/Verus semantics of matches!/const patterns; Z3 as driven by Verus"],
    },
}

NOT_APPLICABLE = {
    "C07": "disassembly text (format!/Display/join, injectivity of rendered strings): Verus has no string reasoning and rejects the iterator/closure chains of disassemble.rs; with formatting stubbed nothing of the statement is left; injectivity is a 2-run hyperproperty Kani cannot decide (DESIGN.md §6). Its panic sites are covered under C04.",
    "C18": "lifting: 14.5k generated lines driven by operands.next(), HashMap entry API, closures and panics-as-control-flow; neither installed verifier can take lift::convert and a per-arm spec would be regenerated from the same table as the code (DESIGN.md §6)",
    "C20": "process behaviour of rspirv-dis (exit status, stdout, file I/O, clap) is outside function contracts; its library-level content (panic freedom of load + disassemble) is decided under C04 (DESIGN.md §6)",
}

PROPS["C08"] = {
    "title": "spirv enums and bit-masks map numbers and names exactly as declared",
    "units": {"quick": ["spirv_enums"], "thorough": ["spirv_enums"]},
    "level": "proof",
    "technique": "Verus contracts on all 45 extracted from_u32 (transmute precondition = declared discriminant), compute lemmas over the extracted FromStr tables; Kani complete proofs for bitflags from_bits",
    "design_ref": "DESIGN.md §4 C08",
    "explanation": "All 45 `from_u32` are extracted verbatim each run; the transmute in every arm carries the precondition "
                   "`declared_T(n)` generated from the enum declaration, and the postcondition states Some iff declared and "
                   "value-as-u32 == n for all 2^32 n. Name tables are lifted arm by arm into spec functions and every variant "
                   "and alias is proved to parse back.",
    "assumptions": [],
}

PROPS["C08"]["units"] = {"quick": ["spirv_enums", "kani_masks", "decoder"], "thorough": ["spirv_enums", "kani_masks", "kani_enums", "decoder"]}
# the typed decoder requests are where a number read from a binary is accepted or rejected as a value of each enum / mask type
PROPS["C08"]["only_items"] = {"decoder": [r"Decoder::(?!new$|offset$|word$|words$|set_limit$|clear_limit$|has_limit$|limit_reached$|string$|id$|bit32$|bit64$|ext_inst_integer$)\w+$"]}
PROPS["C08"]["engines"] = ["verus", "kani"]

PROPS["C11"] = {
    "title": "Decoder consumes exactly what it returns and honours limits",
    "units": {"quick": ["decoder", "spirv_enums"], "thorough": ["decoder", "spirv_enums", "kani_masks"]},
    "only_items": {"spirv_enums": [r"::from_u32$"]},
    "level": "proof",
    "technique": "Verus contracts on every extracted Decoder method and the 56 generated typed requests (view bytes/offset/limit, invariant offset <= len), limit lemma by induction over request histories",
    "design_ref": "DESIGN.md §4 C11",
    "explanation": "All 13 hand-written Decoder methods and the 56 generated typed requests are extracted each run and proved "
                   "against postconditions written from the statement (three-way word(), little-endian words, low-word-first "
                   "bit64, NUL-terminated whole-word strings charged to the limit); `offset <= len` is required and ensured "
                   "everywhere; the limit lemma is an induction over the contracts.",
    "assumptions": [],
}

PROPS["C19"] = {
    "title": "Storage tokens are stable handles to the appended values",
    "units": {"quick": ["storage"], "thorough": ["storage"]},
    "level": "proof",
    "technique": "Verus contracts on extracted Storage/Token functions over a Seq view with uninterpreted equality; history lemmas by induction over the contracts",
    "design_ref": "DESIGN.md §4 C19",
    "explanation": "append/fetch_or_append/index/Token::new/index are extracted verbatim and proved against whole-view postconditions "
                   "(data' == data.push(v) or data' == data; first equal element); stability, freshness and density of tokens for "
                   "every finite history are lemmas over those postconditions only.",
    "assumptions": [],
}

PROPS["C09"] = {
    "title": "Grammar tables are total, unique and match the Khronos grammar",
    "units": {"quick": ["table_core", "table_glsl", "table_opencl"], "thorough": ["table_core", "table_glsl", "table_opencl"]},
    "level": "proof",
    "technique": "Verus: every row of the three real tables lifted to spec mode and checked by by(compute_only) lemmas (position, well-formedness, O4 snapshot); lookup_opcode/get extracted and proved against the table lemmas",
    "design_ref": "DESIGN.md §4 C09",
    "explanation": "Each of the 787+81+166 rows is the real row text placed in spec mode; per-row lemmas evaluated by the Verus interpreter "
                   "establish well-formedness and the row's position, chunk lemmas derive uniqueness and totality for all 2^16/2^32 numbers, "
                   "and the real lookup_opcode/get bodies are proved against them through the closure they pass to find().",
    "assumptions": [],
}

PROPS["C05"] = {
    "title": "Loader accepts exactly well-bracketed function/block structure",
    "units": {"quick": ["loader", "reflect"], "thorough": ["loader", "reflect"]},
    "only_items": {"reflect": [r"grammar::reflect::"]},
    "level": "proof",
    "technique": "Verus contract on the extracted Loader::consume_instruction/finalize: whole-state equality with the bracket automaton of the statement, representation invariant, acceptance==well-bracketedness lemma by induction",
    "design_ref": "DESIGN.md §4 C05",
    "explanation": "consume_instruction, finalize, consume_header, new, module and the if_ret_err! macro are extracted verbatim; the "
                   "postcondition is equality of the whole abstract loader state with a spec automaton written from the statement "
                   "(so exactly one section/function/block receives the instruction), under a representation invariant that carries "
                   "the statement's success clauses; a pure lemma shows the automaton accepts exactly the well-bracketed sequences.",
    "assumptions": [],
}

PROPS["C12"] = {
    "title": "Builder calls never panic, failed calls change nothing, structure is enforced",
    "units": {"quick": ["builder_core", "builder_gen"], "thorough": ["builder_core", "builder_gen"]},
    "only_items": {"builder_gen": [r"Builder::(?!type_)\w+$"]},
    "level": "proof",
    "technique": "Verus contracts on the extracted hand-written Builder methods and the 24 generated fixed-operand terminator methods over an abstract module view, with the selection invariant required and re-established by every method",
    "design_ref": "DESIGN.md §4 C12+C13",
    "explanation": "Every hand-written Builder method in C12's alphabet is extracted verbatim and proved, for all builder states satisfying "
                   "the selection invariant, to re-establish it, to fail exactly under the stated condition, to leave the whole module view "
                   "unchanged on failure and to perform exactly the stated update on success; every index/unwrap/expect/arithmetic site is an obligation.",
    "assumptions": [],
}
PROPS["C13"] = {
    "title": "Builder id discipline: fresh ids, exact bound, deduplicated implicit types",
    "units": {"quick": ["builder_core", "builder_gen"], "thorough": ["builder_core", "builder_gen"]},
    "only_items": {"builder_gen": [r"Builder::type_\w+$"]},
    "level": "proof",
    "technique": "Verus contracts on id(), new(), new_from_module(), module(), dedup_insert_type() (loop invariant) and the three-way type requests: hand-written type_pointer and the 55 generated type_* / type_*_id methods with fixed or optional operands",
    "design_ref": "DESIGN.md §4 C12+C13",
    "explanation": "id() returns the old counter and advances it by one, every other method leaves it unchanged or advances it by the ids it hands out; "
                   "module() writes the counter into the bound; dedup_insert_type returns the id of the first identical declaration (loop invariant over the real loop); "
                   "type requests satisfy the three-way postcondition of the statement.",
    "assumptions": [],
}

PROPS["C14"] = {
    "title": "Parser drives the consumer in protocol order and obeys its actions",
    "units": {"quick": ["parser_protocol", "loader", "parser_core", "decoder"], "thorough": ["parser_protocol", "loader", "parser_core", "decoder"]},
    "only_items": {"loader": [r"Loader::(finalize|initialize|consume_header)"], "parser_core": [r"parse_inst", r"parse_header", r"parse_operands", r"parse_spec_constant_op"],
                   "decoder": [r"Decoder::(word|words|set_limit|clear_limit|limit_reached|has_limit)$"]},
    "level": "proof",
    "technique": "Verus contract on the extracted Parser::parse and Action::consume over a ghost callback log declared in the Consumer trait; termination measure on the parse loop",
    "design_ref": "DESIGN.md §4 C14",
    "explanation": "The Consumer trait is extracted with a ghost log; each callback's contract appends one event (the definition of a "
                   "well-behaved consumer). The real parse loop is proved, for every consumer behaviour and every binary, to extend the "
                   "log by a sequence satisfying the protocol predicate written from the statement, to terminate, and to return the result "
                   "matching the last answer (same boxed error value).",
    "assumptions": [],
}

PROPS["C03"] = {
    "title": "Parser accepts exactly the grammar and reports the first malformed instruction",
    "units": {"quick": ["parser_core", "parser_protocol", "decoder", "table_core", "tracker", "spirv_enums"], "thorough": ["parser_core", "decoder", "table_core", "parser_protocol", "tracker", "spirv_enums", "kani_masks"]},
    "only_items": {"parser_protocol": [r"Parser::(parse|new)$", r"Action::consume"]},
    "level": "proof",
    "technique": "Verus contracts on the extracted parse_header/parse_inst/parse_operands/parse_spec_constant_op and the generated operand parsers: framing, error kinds, 1-based instruction number, offset inside the declared extent, exact word accounting, and conformance of every delivered operand vector to the grammar row (ghost match trace maintained in the real loops)",
    "design_ref": "DESIGN.md §4 C03, §9.7",
    "explanation": "parse_header, parse_inst, parse_operands, parse_spec_constant_op, parse_literal and all seven generated operand-parsing "
                   "functions are extracted verbatim. Proved for all inputs: header three-way outcome; Complete iff fewer than four bytes remain; "
                   "WordCountZero/OpcodeUnknown with the instruction's offset and 1-based number; success consumes exactly the declared word "
                   "count (no word left over) and yields the looked-up opcode; every positioned error carries this instruction's number and an "
                   "offset inside its declared extent; every delivered instruction `conforms` to its row: result type / result id present exactly when the row has them, "
                   "the operand vector is a concatenation of chunks in grammar order, one per concrete operand, each of the variant(s) its kind dictates, "
                   "required operands exactly once, optional at most once, only a variadic one repeated, the match stopping only at the end of the row or at an optional / variadic "
                   "operand with every word used, and the same for the opcode embedded in OpSpecConstantOp. NOT proved: the converse (every grammar-conforming word sequence is accepted) "
                   "beyond the greedy/stop clauses - it needs value-level validity of enumerants; crafted must-accept / must-reject modules are replayed by the witness search only.",
    "assumptions": [],
}

PROPS["C10"] = {
    "title": "Context-dependent literal widths follow the types declared earlier",
    "units": {"quick": ["parser_core", "parser_protocol", "tracker", "decoder", "table_core", "assemble"], "thorough": ["parser_core", "parser_protocol", "tracker", "decoder", "table_core", "assemble"]},
    "only_items": {"parser_core": [r"parse_literal", r"parse_operands", r"parse_inst"], "parser_protocol": [r"Parser::(parse|new)$"]},
    "level": "proof",
    "technique": "Verus contract on the extracted parse_literal: words consumed and operand variant as a function of the tracker's abstract map only; fresh tracker per parser; tracker semantics by bounded Kani check",
    "design_ref": "DESIGN.md §4 C10",
    "explanation": "parse_literal is proved to consume one word for Integer 8/16/32, Float 16/32 and unknown types, two words low-first for 64 bits, "
                   "and to return TypeUnsupported(offset, index) for every other width, as a function of resolve(type_id) alone; parse_operands passes the "
                   "result type (OpConstant/OpSpecConstant) or operand 0 (OpSwitch selector), both protected by table facts proved per row.",
    "assumptions": [],
}
PROPS["C04"] = {
    "title": "Parsing, loading, assembling and disassembling never panic on any input",
    "units": {"quick": ["decoder", "parser_core", "parser_protocol", "loader", "disas_guard", "tracker", "assemble", "table_core"],
              "thorough": ["decoder", "parser_core", "parser_protocol", "loader", "disas_guard", "tracker", "assemble", "table_core"]},
    "level": "proof",
    "technique": "aggregation of the panic-class obligations (index, slice, unwrap/expect, assert, panic!(), overflow, termination) Verus generates at the real source lines of decoder, parser, loader and disas_constant",
    "design_ref": "DESIGN.md §4 C04",
    "explanation": "In Verus every panic!, assert!, unwrap, expect, index, slice range and machine-integer operation of the extracted functions is an "
                   "obligation; all of them are discharged for every byte string / limit / consumer behaviour under the stated invariants. "
                   "Covered: all of Decoder, parse_header..parse_operands, the generated operand parsers, Parser::parse (with termination), "
                   "Loader, disas_constant. Listed as not covered in the evidence: parse_words' unsafe from_raw_parts, TypeTracker/ExtInstSetTracker "
                   "(HashMap), disas_ext_inst and the format!-based Disassemble impls, Assemble (unit assemble).",
    "assumptions": [],
}

PROPS["C02"] = {
    "title": "Assemble and parse are exact inverses on grammar-conforming instructions",
    "units": {"quick": ["assemble", "kani_assemble_str", "parser_core", "parser_protocol", "tracker", "decoder", "table_core"], "thorough": ["assemble", "kani_assemble_str", "parser_core", "parser_protocol", "tracker", "decoder"]},
    "only_items": {"parser_core": [r"parse_literal", r"parse_operand", r"parse_\w+_arguments", r"parse_inst", r"parse_spec_constant_op"],
                   "parser_protocol": [r"Parser::(parse|new)$"]},
    "engines": ["verus", "kani"],
    "level": "proof",
    "technique": "Verus contracts on the extracted Operand/Instruction/ModuleHeader/Block/Function assemble_into against an encoding spec generated from the payload types of dr::Operand; assemble_str by bounded Kani",
    "design_ref": "DESIGN.md §4 C02",
    "explanation": "Encoding side proved for all values: every operand variant appends exactly the words the specification prescribes for its payload type "
                   "(enumerant number, mask bits, word, low-then-high for 64 bits, NUL-terminated padded string words), an instruction is its first word "
                   "(word count << 16 | opcode, word count = words emitted) followed by result type, result id and the operand encodings in order. "
                   "The parser side is proved to consume exactly the declared extent and to deliver operand vectors that conform to the row, variant by variant (C03 `conforms`), "
                   "with the tracker fed by every delivered instruction (parser_protocol, tracker). Value level: every arm of parse_operand (one function per arm, R26) returns operands whose "
                   "first_word - enumerant number, mask bits, id / literal word - is the word read at the arm's offset (both words for pairs), parse_literal returns the one- or two-word literal low word first, "
                   "result type / result id are the first operand words; unit assemble proves enc_operand(op) == [first_word(op)] (64-bit: + high half) for every non-string operand. "
                   "NOT proved: the composition of these per-chunk facts into parse(assemble(i)) == i as one lemma, the parameters parsed by the six parse_*_arguments functions at value level, "
                   "strings beyond Decoder::string's contract (C11); assemble_str is a BOUNDED Kani check.",
    "assumptions": [],
}

PROPS["C17"] = {
    "title": "Operand reflection agrees with the parser and the grammar",
    "units": {"quick": ["operand_reflect", "operand_caps", "reflect_sweep"], "thorough": ["operand_reflect", "operand_caps", "reflect_sweep", "parser_core"]},
    "engines": ["verus", "replay-exhaustive"],
    "level": "proof",
    "technique": "Verus contracts on id_ref_any, the 60 unwrap_* and the From conversions; every arm of required_capabilities / required_extensions against the O4 snapshot; parser-side parameter sequences proved against the lifted reflection tables (3 of 6 functions, unit parser_core); exhaustive finite-domain sweep of reflection vs parser on the real crate",
    "design_ref": "DESIGN.md §4 C17",
    "explanation": "Proved (Verus): an operand reports an id iff it is IdRef/IdScope/IdMemorySemantics; unwrap_k returns the payload of variant k and is only "
                   "defined on it; From<payload> builds that variant (round trip by composition). Proved in parser_core: parse_execution_mode_arguments, "
                   "parse_memory_access_arguments, parse_tensor_addressing_operands_arguments consume exactly the parameters additional_operands reports (lifted). "
                   "Exhaustive sweep on the real code (not a proof, counted separately): agreement for every enumerant and every bit combination. "
                   "operand_caps: each of the 51 + 43 arms of required_capabilities / required_extensions returns, for every value, the list of the O4 snapshot for the enumerant, "
                   "or the concatenation over the capability groups the set bits intersect (masks). "
                   "NOT decided: equality with the Khronos grammar itself (JSON absent; the O4 snapshots frozen from the pinned tree stand in for it).",
    "assumptions": [],
}

PROPS["C06"] = {
    "title": "Every module built with the Builder survives assemble-then-load unchanged",
    "units": {"quick": ["builder_sections", "builder_ops", "builder_core", "loader", "method_sweep", "reflect", "assemble", "kani_assemble_str"], "thorough": ["builder_sections", "builder_ops", "builder_core", "builder_gen", "loader", "assemble", "method_sweep", "reflect"]},
    "only_items": {"loader": [r"Loader::consume_instruction"], "reflect": [r"grammar::reflect::"],
                   "assemble": [r"dr::(Block|Function|Instruction|ModuleHeader|Operand)(::| as Assemble>::)assemble_into"]},
    "engines": ["verus", "replay-bounded"],
    "level": "proof",
    "technique": "Verus: one placement obligation per instruction-emitting Builder method (1147, builder_sections) and one operand-order obligation per generated method (1096, builder_ops: lifted operand constructions vs the real grammar row, by(compute_only)); Builder::module bound/version contract; hand-written methods' emitted shapes; plus a bounded replay sweep calling every generated method once and round-tripping the module",
    "design_ref": "DESIGN.md §4 C06, §9.7",
    "explanation": "builder_sections: for each of the 1147 Builder methods that emit one opcode, the section / block / terminator position read off the method's real text is where the "
                   "loader's dispatch specification (proved for the real loader in C05) files that opcode. builder_ops: for each of the 1096 generated methods, the operand constructions lifted "
                   "from its text (required / optional / variadic / pair / extra parameters, in program order, parameters in signature order, result type / result id presence) equal the shape of the "
                   "opcode's real INSTRUCTION_TABLE row. builder_core proves the bound written by module(), the instruction shapes of the hand-written methods and that terminators close the block. "
                   "method_sweep (BOUNDED, one argument vector per method) calls every generated method on the real Builder inside a complete history and compares module() with load_words(assemble()). "
                   "NOT proved: the end-to-end composition lemma (assemble then load returns the same module) over arbitrary histories and argument values.",
    "assumptions": [],
}

PROPS["C15"] = {
    "title": "Module traversals visit exactly the assembled instruction sequence",
    "units": {"quick": ["traversal_sweep", "assemble", "kani_assemble_str"], "thorough": ["traversal_sweep", "assemble", "kani_assemble_str"]},
    "only_items": {"assemble": [r"dr::(Block|Function|Instruction|ModuleHeader)(::| as Assemble>::)assemble_into"]},
    "engines": ["replay-bounded", "verus"],
    "level": "model_checking",
    "technique": "bounded exhaustive enumeration of module shapes on the real crate for the iterator-chain traversals (labelled bounded); Verus proofs of Block/Function/Instruction assemble_into (loop invariants)",
    "design_ref": "DESIGN.md §4 C15, §9",
    "explanation": "BOUNDED: every module shape with sections of <= 2 instructions, <= 2 functions x <= 2 blocks x <= 2 instructions and every present/absent "
                   "combination of header, memory model, def, end, label (about 1.5 million modules) is built on the real crate and all six traversals plus "
                   "Module::assemble are compared with the layout order. Unbounded (Verus): Block, Function and Instruction assemble_into equal the concatenation "
                   "of their parts. The iterator chains themselves are not proved for larger sections.",
    "assumptions": [],
}

PROPS["C01"] = {
    "title": "Load-then-assemble reproduces every instruction of the input binary",
    "units": {"quick": ["loader", "parser_protocol", "parser_core", "assemble", "decoder", "traversal_sweep", "tracker", "reflect", "table_core", "kani_assemble_str"],
              "thorough": ["loader", "parser_protocol", "parser_core", "assemble", "decoder", "traversal_sweep", "table_core", "tracker", "reflect"]},
    "only_items": {"reflect": [r"grammar::reflect::"], "loader": [r"Loader::", r"step_adds", r"step_appends", r"ms_", r"step_refines"],
                   "parser_protocol": [r"Parser::(parse|new)$", r"Action::consume"],
                   "parser_core": [r"parse_inst", r"parse_header", r"parse_operands", r"parse_literal", r"create_"],
                   "assemble": [r"dr::(Block|Function|Instruction|ModuleHeader|Operand)(::| as Assemble>::)assemble_into", r"operand_facts"],
                   "decoder": [r"Decoder::(string|word|words|bit64)$"]},
    "engines": ["verus", "replay-bounded"],
    "level": "proof",
    "technique": "composition of discharged contracts: parser delivers every instruction once in order (C14) and consumes exactly its extent (C03); loader step adds exactly that instruction to exactly one place, appending (multiset + prefix lemmas over the proved automaton); assembly of instruction/block/function is the concatenation of encodings (C02/C15); traversal order by bounded sweep",
    "design_ref": "DESIGN.md §4 C01, §9",
    "explanation": "Proved: (i) every accepted loader step adds exactly the consumed instruction to the loader's holdings (multiset lemma per instruction kind over the automaton "
                   "the real loader is proved equal to) and only ever appends, so nothing is dropped, duplicated or invented and order inside every section is kept; "
                   "(ii) parse delivers each parsed instruction exactly once, in stream order, and parse_inst consumes exactly the declared extent; (iii) header: bound and version bytes are carried; "
                   "(iv) instruction/block/function assembly is the concatenation of the operand encodings. BOUNDED: module-level assembly order (traversal sweep). "
                   "NOT proved: the value-level inverse (re-encoding yields the same words) and the end-to-end composition as one lemma.",
    "assumptions": [],
}
