#!/bin/sh
# tools/rehearse.sh <patch-file> <property> [tier]
# Applies a patch to a scratch worktree of /repo (outside /repo and /verif), runs the check
# against that tree (VERIF_REPO), prints the exit code, removes the worktree and its build output.
set -u
PATCH=$(realpath "$1"); PROP=$2; TIER=${3:-quick}
D=$(mktemp -d /tmp/rehearse.XXXXXX)
git -C /repo worktree add -q --detach "$D/wt" HEAD || exit 3
if ! git -C "$D/wt" apply "$PATCH"; then echo "patch does not apply"; git -C /repo worktree remove --force "$D/wt"; rm -rf "$D"; exit 3; fi
cd "$(dirname "$0")/.." || exit 3
VERIF_REPO="$D/wt" ./check "$PROP" --tier "$TIER"
RC=$?
echo "rehearse: patch=$(basename "$PATCH") property=$PROP rc=$RC"
TAG=$(python3 -c "import hashlib,sys;print(hashlib.sha1(sys.argv[1].encode()).hexdigest()[:8])" "$D/wt")
rm -rf ".work/replay-target-$TAG" ".work/replay-src-$TAG"
git -C /repo worktree remove --force "$D/wt"; rm -rf "$D"
exit $RC
