#!/usr/bin/env python3
"""rsx — a small Rust lexer / item slicer / contract splicer.

Used by every unit on every run to pull the *real* item text out of /repo's
working tree, add contract clauses between signature and body (and in front of
loop bodies), apply the fixed rewrite catalogue (DESIGN.md §2.2) and record
exactly what was done in a map that ends up next to the generated Verus file.

Nothing here edits control flow, arithmetic, comparisons or call order of the
extracted code: `splice` only *adds* tokens, and every catalogue rule that
replaces text is logged (file:line, rule, before, after).

Any anchor that is lost (item not found, loop ordinal out of range, rewrite
pattern that no longer matches where a unit says it must) raises `Lost`, which
the driver turns into exit 2 (UNDECIDED), never into a VIOLATION.
"""
import hashlib
import os
import re
import sys

REPO = os.environ.get("VERIF_REPO", "/repo")


class Lost(Exception):
    """An anchor into the repository text could not be re-established."""


# --------------------------------------------------------------------------
# lexer
# --------------------------------------------------------------------------

class Tok:
    __slots__ = ("kind", "text", "start", "end")

    def __init__(self, kind, text, start, end):
        self.kind, self.text, self.start, self.end = kind, text, start, end

    def __repr__(self):
        return "Tok(%s,%r)" % (self.kind, self.text)


_ident_re = re.compile(r"[A-Za-z_][A-Za-z0-9_]*")
_num_re = re.compile(r"[0-9][0-9A-Za-z_]*(\.[0-9][0-9A-Za-z_]*)?")
_raw_re = re.compile(r'b?r(#*)"')


def lex(src):
    """Tokens of `src`: ident, num, str, char, life, punct, comment (ws dropped)."""
    toks = []
    i, n = 0, len(src)
    while i < n:
        c = src[i]
        if c in " \t\r\n":
            i += 1
            continue
        if src.startswith("//", i):
            j = src.find("\n", i)
            j = n if j < 0 else j
            toks.append(Tok("comment", src[i:j], i, j))
            i = j
            continue
        if src.startswith("/*", i):
            depth, j = 1, i + 2
            while j < n and depth:
                if src.startswith("/*", j):
                    depth += 1
                    j += 2
                elif src.startswith("*/", j):
                    depth -= 1
                    j += 2
                else:
                    j += 1
            toks.append(Tok("comment", src[i:j], i, j))
            i = j
            continue
        m = _raw_re.match(src, i)
        if m:
            close = '"' + m.group(1)
            j = src.find(close, m.end())
            if j < 0:
                raise Lost("unterminated raw string at %d" % i)
            j += len(close)
            toks.append(Tok("str", src[i:j], i, j))
            i = j
            continue
        if c == '"' or (c == "b" and i + 1 < n and src[i + 1] == '"'):
            j = i + (2 if c == "b" else 1)
            while j < n and src[j] != '"':
                j += 2 if src[j] == "\\" else 1
            j += 1
            toks.append(Tok("str", src[i:j], i, j))
            i = j
            continue
        if c == "'" or (c == "b" and i + 1 < n and src[i + 1] == "'"):
            k = i + (1 if c == "b" else 0)
            # char literal or lifetime
            if k + 1 < n and src[k + 1] == "\\":
                j = k + 2
                while j < n and src[j] != "'":
                    j += 1
                j += 1
                toks.append(Tok("char", src[i:j], i, j))
                i = j
                continue
            if k + 2 < n and src[k + 2] == "'":
                toks.append(Tok("char", src[i:k + 3], i, k + 3))
                i = k + 3
                continue
            m = _ident_re.match(src, k + 1)
            if m and c == "'":
                toks.append(Tok("life", src[i:m.end()], i, m.end()))
                i = m.end()
                continue
            # multi-byte char literal such as 'é'
            j = src.find("'", k + 1)
            toks.append(Tok("char", src[i:j + 1], i, j + 1))
            i = j + 1
            continue
        m = _ident_re.match(src, i)
        if m:
            toks.append(Tok("ident", m.group(0), i, m.end()))
            i = m.end()
            continue
        m = _num_re.match(src, i)
        if m:
            toks.append(Tok("num", m.group(0), i, m.end()))
            i = m.end()
            continue
        for p in ("->", "=>", "::", "..=", "..", "&&", "||", "==", "!=", "<=", ">=",
                  "+=", "-=", "*=", "/=", "|=", "&=", "^=", "<<", ">>"):
            if src.startswith(p, i):
                toks.append(Tok("punct", p, i, i + len(p)))
                i += len(p)
                break
        else:
            toks.append(Tok("punct", c, i, i + 1))
            i += 1
    return toks


_OPEN = {"{": "}", "(": ")", "[": "]"}
_CLOSE = {"}", ")", "]"}


def match_brackets(toks):
    """index of opening token -> index of its closing token (and reverse)."""
    stack, pair = [], {}
    for k, t in enumerate(toks):
        if t.kind != "punct":
            continue
        if t.text in _OPEN:
            stack.append(k)
        elif t.text in _CLOSE:
            if not stack:
                raise Lost("unbalanced %r at byte %d" % (t.text, t.start))
            o = stack.pop()
            if _OPEN[toks[o].text] != t.text:
                raise Lost("mismatched %r at byte %d" % (t.text, t.start))
            pair[o] = k
            pair[k] = o
    if stack:
        raise Lost("unclosed bracket at byte %d" % toks[stack[-1]].start)
    return pair


# --------------------------------------------------------------------------
# items
# --------------------------------------------------------------------------

class Item:
    """One syntactic item of a real source file."""

    def __init__(self, src, kind, name, start, end, head_start, body_open, body_close,
                 toks_lo, toks_hi, parent=None):
        self.src = src              # Source
        self.kind = kind            # fn enum struct impl mod macro static const trait use type other
        self.name = name
        self.start = start          # byte offset incl. attributes/doc comments
        self.head_start = head_start  # byte offset of first non-attr token
        self.end = end              # byte offset one past the end
        self.body_open = body_open  # byte offset of '{' (or None)
        self.body_close = body_close
        self.toks_lo, self.toks_hi = toks_lo, toks_hi
        self.parent = parent
        self.children = []
        self.impl_of = None         # for impl: self type name
        self.impl_trait = None

    @property
    def text(self):
        return self.src.text[self.start:self.end]

    @property
    def core_text(self):
        return self.src.text[self.head_start:self.end]

    @property
    def line(self):
        return self.src.text.count("\n", 0, self.head_start) + 1

    @property
    def end_line(self):
        return self.src.text.count("\n", 0, self.end) + 1

    def sha(self):
        return hashlib.sha256(self.core_text.encode()).hexdigest()

    def qual(self):
        if self.parent is not None and self.parent.kind == "impl":
            return "%s::%s" % (self.parent.impl_of, self.name)
        return self.name

    def __repr__(self):
        return "<%s %s %s:%d>" % (self.kind, self.qual(), self.src.rel, self.line)


_KW_ITEM = {"fn", "enum", "struct", "impl", "mod", "macro_rules", "static", "const",
            "trait", "use", "type", "union", "extern"}
_MODS = {"pub", "unsafe", "async", "default", "crate", "in", "super", "self"}


class Source:
    _cache = {}

    def __init__(self, rel, text=None):
        self.rel = rel
        self.path = os.path.join(REPO, rel)
        if text is None:
            try:
                with open(self.path, encoding="utf-8") as f:
                    text = f.read()
            except OSError as e:
                raise Lost("cannot read %s: %s" % (self.path, e))
        self.text = text
        self.toks = [t for t in lex(text)]
        self.code = [t for t in self.toks if t.kind != "comment"]
        self.pair = match_brackets(self.code)
        self.items = self._parse(0, len(self.code), None)

    @classmethod
    def get(cls, rel):
        key = (REPO, rel)
        if key not in cls._cache:
            cls._cache[key] = Source(rel)
        return cls._cache[key]

    # -- parsing ----------------------------------------------------------
    def _parse(self, lo, hi, parent):
        code, pair = self.code, self.pair
        items = []
        k = lo
        while k < hi:
            first = k
            # attributes
            while k < hi and code[k].text == "#":
                j = k + 1
                if j < hi and code[j].text == "!":
                    j += 1
                if j < hi and code[j].text == "[":
                    k = pair[j] + 1
                else:
                    break
            if k >= hi:
                break
            head = k
            # modifiers
            j = k
            while j < hi and code[j].kind == "ident" and code[j].text in _MODS:
                j += 1
                if j < hi and code[j].text == "(" and code[j - 1].text == "pub":
                    j = pair[j] + 1
            if j < hi and code[j].text == "extern" and j + 1 < hi and code[j + 1].kind == "str":
                j += 2
            kw = code[j].text if j < hi else ""
            kind, name = "other", None
            if kw == "const" and j + 1 < hi and code[j + 1].text in ("fn", "unsafe"):
                j += 1
                while code[j].text in ("unsafe",):
                    j += 1
                kw = code[j].text
            if kw in ("fn", "enum", "struct", "mod", "static", "const", "trait", "type", "union"):
                kind = kw
                nm = j + 1
                if kw == "static" and code[nm].text == "mut":
                    nm += 1
                name = code[nm].text
            elif kw == "impl":
                kind = "impl"
            elif kw == "use":
                kind = "use"
            elif kw == "macro_rules":
                kind = "macro"
                name = code[j + 2].text
            elif code[j].kind == "ident" and j + 1 < hi and code[j + 1].text == "!":
                kind = "macrocall"
                name = code[j].text
            # find end: first '{' at depth 0 => its match (fn/enum/struct/impl/mod/trait/macro)
            # or ';' at depth 0
            e = j
            body_open = body_close = None
            while e < hi:
                t = code[e]
                if t.kind == "punct" and t.text in _OPEN:
                    if t.text == "{" and kind in ("fn", "enum", "struct", "impl", "mod", "trait",
                                                    "macro", "union", "macrocall", "other"):
                        body_open, body_close = e, pair[e]
                        e = pair[e]
                        # `struct X {..}` / fn: done; macro call with braces: optional ';'
                        if kind in ("macrocall", "macro") and e + 1 < hi and code[e + 1].text == ";":
                            e += 1
                        break
                    e = pair[e] + 1
                    continue
                if t.kind == "punct" and t.text == ";":
                    break
                e += 1
            if e >= hi:
                e = hi - 1
            # start byte: include preceding doc comments? keep attrs only
            start_b = code[first].start
            it = Item(self, kind, name, start_b, code[e].end, code[head].start,
                      code[body_open].start if body_open is not None else None,
                      code[body_close].start if body_close is not None else None,
                      first, e + 1, parent)
            if kind == "impl":
                self._impl_names(it, j, body_open)
            if kind in ("impl", "mod", "trait") and body_open is not None:
                it.children = self._parse(body_open + 1, body_close, it)
            items.append(it)
            k = e + 1
        return items

    def _impl_names(self, it, j, body_open):
        code = self.code
        # tokens between 'impl' and '{', skip generics right after impl
        k = j + 1
        if code[k].text == "<":
            depth = 0
            while True:
                if code[k].text == "<":
                    depth += 1
                elif code[k].text == ">":
                    depth -= 1
                    if depth == 0:
                        k += 1
                        break
                elif code[k].text == ">>":
                    depth -= 2
                    if depth <= 0:
                        k += 1
                        break
                k += 1
        seg = code[k:body_open]
        # split at 'for' (depth 0 of <>)
        depth, split = 0, None
        for idx, t in enumerate(seg):
            if t.text == "<":
                depth += 1
            elif t.text == ">":
                depth -= 1
            elif t.text == ">>":
                depth -= 2
            elif t.text == "for" and depth == 0:
                split = idx
            elif t.text == "where" and depth == 0:
                seg = seg[:idx]
                break

        def last_path_ident(ts):
            depth, name = 0, None
            for t in ts:
                if t.text == "<":
                    depth += 1
                elif t.text == ">":
                    depth -= 1
                elif t.text == ">>":
                    depth -= 2
                elif depth == 0 and t.kind == "ident" and t.text not in ("dyn", "mut"):
                    name = t.text
            return name
        if split is not None:
            it.impl_trait = last_path_ident(seg[:split])
            it.impl_of = last_path_ident(seg[split + 1:])
        else:
            it.impl_of = last_path_ident(seg)
        it.name = it.impl_of

    # -- lookup -----------------------------------------------------------
    def walk(self, items=None):
        for it in (self.items if items is None else items):
            yield it
            if it.children:
                for c in self.walk(it.children):
                    yield c

    def find(self, kind, name, trait=None, nth=None):
        """`name` may be `Type::method` for items inside impl blocks."""
        out = []
        if "::" in name and kind in ("fn", "const", "type"):
            ty, meth = name.split("::", 1)
            for it in self.walk():
                if it.kind == "impl" and it.impl_of == ty and (trait is None or it.impl_trait == trait):
                    if trait is None and it.impl_trait is not None and False:
                        continue
                    for c in it.children:
                        if c.kind == kind and c.name == meth:
                            out.append(c)
        else:
            for it in self.walk():
                if it.kind == kind and it.name == name and (it.parent is None or it.parent.kind == "mod"
                                                             or kind == "impl"):
                    if kind == "impl" and trait != "*" and it.impl_trait != trait:
                        continue
                    out.append(it)
        if nth is not None:
            if nth >= len(out):
                raise Lost("%s %s #%d not found in %s" % (kind, name, nth, self.rel))
            return out[nth]
        if len(out) != 1:
            raise Lost("%s %s: %d matches in %s" % (kind, name, len(out), self.rel))
        return out[0]

    def find_all(self, kind, pred=None):
        return [it for it in self.walk() if it.kind == kind and (pred is None or pred(it))]


# --------------------------------------------------------------------------
# splicing
# --------------------------------------------------------------------------

class Piece:
    """Extracted item text being prepared for emission, with provenance."""

    def __init__(self, item):
        self.item = item
        self.text = item.core_text
        self.base = item.head_start      # byte offset of text[0] in the source
        self.log = []                    # rewrite / splice log entries
        self.inserts = []                # (offset_in_original, text, tag)
        self.subs = []                   # (start, end, replacement, rule)

    # positions are offsets into the ORIGINAL core_text
    def _toks(self):
        src = self.item.src
        return [t for t in src.code[self.item.toks_lo:self.item.toks_hi] if t.start >= self.base]

    def sig_end(self):
        """offset (in core_text) of the body '{' of a fn."""
        if self.item.body_open is None:
            raise Lost("%r has no body" % self.item)
        return self.item.body_open - self.base

    def name_result(self, rname):
        """`-> T` becomes `-> (rname: T)` (adds tokens only)."""
        toks = self._toks()
        src = self.item.src
        # find '->' at bracket depth 0 before body
        depth = 0
        arrow = None
        for t in toks:
            if t.start >= self.item.body_open:
                break
            if t.kind == "punct" and t.text in _OPEN:
                depth += 1
            elif t.kind == "punct" and t.text in _CLOSE:
                depth -= 1
            elif t.text == "->" and depth == 0:
                arrow = t
        if arrow is None:
            raise Lost("%r: no return type to name" % self.item)
        # type runs to 'where' at depth 0 or body
        end = self.item.body_open
        depth = 0
        for t in toks:
            if t.start <= arrow.start or t.start >= self.item.body_open:
                continue
            if t.kind == "punct" and t.text in _OPEN:
                depth += 1
            elif t.kind == "punct" and t.text in _CLOSE:
                depth -= 1
            elif t.kind == "ident" and t.text == "where" and depth == 0:
                end = t.start
                break
        ty_text = src.text[arrow.end:end].rstrip()
        a = arrow.end - self.base
        self.inserts.append((a, " (%s:" % rname, "ret"))
        self.inserts.append((a + len(src.text[arrow.end:end].rstrip()), ")", "ret"))
        return ty_text.strip()

    def add_contract(self, clauses):
        """clauses: text placed between signature and body."""
        if clauses.strip():
            self.inserts.append((self.sig_end(), "\n" + clauses.rstrip() + "\n", "contract"))

    def loops(self):
        """[(keyword_tok, body_open_offset)] of while/loop/for in the body, source order."""
        toks = self._toks()
        src = self.item.src
        out = []
        idx = {t.start: k for k, t in enumerate(src.code)}
        for t in toks:
            if t.start <= self.item.body_open:
                continue
            if t.kind == "ident" and t.text in ("while", "loop", "for"):
                k = idx[t.start]
                # `for` inside generic bounds (for<'a>) — skip
                if t.text == "for" and src.code[k + 1].text == "<":
                    continue
                j = k + 1
                while src.code[j].text != "{":
                    if src.code[j].kind == "punct" and src.code[j].text in _OPEN:
                        j = src.pair[j] + 1
                    else:
                        j += 1
                out.append((t, src.code[j].start - self.base))
        return out

    def add_loop_contract(self, ordinal, clauses):
        ls = self.loops()
        if not (1 <= ordinal <= len(ls)):
            raise Lost("%r: loop #%d not found (%d loops)" % (self.item, ordinal, len(ls)))
        self.inserts.append((ls[ordinal - 1][1], "\n" + clauses.rstrip() + "\n", "loop%d" % ordinal))

    def insert_at(self, anchor, text, where="after", nth=1, tag="ghost"):
        """Insert ghost text before/after the nth occurrence of `anchor` in the body."""
        body0 = self.sig_end()
        pos, start = -1, body0
        for _ in range(nth):
            pos = self.text.find(anchor, start)
            if pos < 0:
                raise Lost("%r: anchor %r (#%d) not found" % (self.item, anchor, nth))
            start = pos + 1
        if self.text.count(anchor, body0) < nth:
            raise Lost("%r: anchor %r (#%d) not found" % (self.item, anchor, nth))
        at = pos if where == "before" else pos + len(anchor)
        self.inserts.append((at, text, tag))

    def insert_after_stmt(self, prefix, text, nth=1, tag="ghost"):
        """Insert ghost text after the statement (up to its `;`) that starts with `prefix`."""
        body0 = self.sig_end()
        pos, start = -1, body0
        for _ in range(nth):
            pos = self.text.find(prefix, start)
            if pos < 0:
                raise Lost("%r: statement starting with %r (#%d) not found" % (self.item, prefix, nth))
            start = pos + 1
        depth, k = 0, pos
        while k < len(self.text):
            ch = self.text[k]
            if ch in "([{":
                depth += 1
            elif ch in ")]}":
                depth -= 1
            elif ch == ";" and depth == 0:
                break
            k += 1
        if k >= len(self.text):
            raise Lost("%r: statement starting with %r is not terminated" % (self.item, prefix))
        self.inserts.append((k + 1, text, tag))

    def sub(self, pattern, repl, rule, count=None, required=True, flags=0):
        """Catalogue rewrite: regex replacement, logged. `count`: exact number expected."""
        ms = list(re.finditer(pattern, self.text, flags))
        if required and not ms:
            raise Lost("%r: rule %s pattern %r does not match" % (self.item, rule, pattern))
        if count is not None and len(ms) != count:
            raise Lost("%r: rule %s expected %d matches, found %d" % (self.item, rule, count, len(ms)))
        for m in ms:
            new = m.expand(repl) if isinstance(repl, str) else repl(m)
            if new.count("\n") != m.group(0).count("\n"):
                # keep line structure so spans map back
                new = new.replace("\n", " ") + "\n" * m.group(0).count("\n")
            self.subs.append((m.start(), m.end(), new, rule))
        return len(ms)

    def rewrite_slices(self, required=False, ref_base=False):
        """Catalogue R5 (+R6), token level, shape independent:
             [&]base[lo..hi] -> slice_subrange(base, lo, hi)
             [&]base[lo..]   -> slice_from(base, lo)
             [&]base[..hi]   -> slice_to(base, hi)
           and `<path>::from_le_bytes(<such a slice>.try_into().unwrap())` -> le_word(<slice fn>).
           `base` is a plain path (identifiers, `self`, field accesses). Returns the number of rewrites."""
        src = self.item.src
        code = src.code
        lo_i, hi_i = self.item.toks_lo, self.item.toks_hi
        n = 0
        k = lo_i
        body_open = self.item.body_open if self.item.body_open is not None else self.base
        while k < hi_i:
            t = code[k]
            if t.start < body_open or t.text != "[" or t.kind != "punct" or k == 0:
                k += 1
                continue
            prev = code[k - 1]
            if prev.kind != "ident":
                k += 1
                continue
            close = src.pair[k]
            # top-level `..` inside the brackets
            dots, depth = None, 0
            for j in range(k + 1, close):
                tj = code[j]
                if tj.kind == "punct" and tj.text in _OPEN:
                    depth += 1
                elif tj.kind == "punct" and tj.text in _CLOSE:
                    depth -= 1
                elif depth == 0 and tj.kind == "punct" and tj.text in ("..", "..="):
                    dots = j
                    break
            if dots is None or code[dots].text == "..=":
                k += 1
                continue
            # base path backwards
            b = k - 1
            while b - 2 >= lo_i and code[b - 1].text == "." and code[b - 2].kind == "ident":
                b -= 2
            start_tok = b
            if b - 1 >= lo_i and code[b - 1].text == "&":
                start_tok = b - 1
            base = src.text[code[b].start:code[k - 1].end]
            if ref_base:
                base = "&" + base
            lo = src.text[code[k + 1].start:code[dots - 1].end].strip() if dots > k + 1 else ""
            hi = src.text[code[dots + 1].start:code[close - 1].end].strip() if close > dots + 1 else ""
            if lo and hi:
                rep = "slice_subrange(%s, %s, %s)" % (base, lo, hi)
            elif lo:
                rep = "slice_from(%s, %s)" % (base, lo)
            elif hi:
                rep = "slice_to(%s, %s)" % (base, hi)
            else:
                k += 1
                continue
            rule = "R5"
            s_b, e_b = code[start_tok].start, code[close].end
            # R6: from_le_bytes(<slice>.try_into().unwrap())
            nxt = [code[close + i].text if close + i < hi_i else "" for i in range(1, 10)]
            if nxt[:7] == [".", "try_into", "(", ")", ".", "unwrap", "("] and nxt[7] == ")":
                after = close + 9
                if after < hi_i and code[after].text == ",":
                    after += 1
                if (after < hi_i and code[after].text == ")" and start_tok - 2 >= lo_i
                        and code[start_tok - 1].text == "(" and code[start_tok - 2].text == "from_le_bytes"):
                    q = start_tok - 2
                    while q - 2 >= lo_i and code[q - 1].text == "::" and code[q - 2].kind == "ident":
                        q -= 2
                    s_b, e_b = code[q].start, code[after].end
                    rep = "le_word(%s)" % rep
                    rule = "R5+R6"
            a0, a1 = s_b - self.base, e_b - self.base
            old = self.text[a0:a1]
            if old.count("\n"):
                rep = rep + "\n" * old.count("\n")
            self.subs.append((a0, a1, rep, rule))
            n += 1
            k = close + 1
        if required and n == 0:
            raise Lost("%r: no slice expression found for rule R5" % self.item)
        return n

    def render(self):
        """-> (text, log, linemap) ; linemap[i] = source line of generated line i or None."""
        ops = []
        for (a, b, new, rule) in self.subs:
            ops.append((a, b, new, rule))
        for (a, txt, tag) in self.inserts:
            ops.append((a, a, txt, tag))
        ops.sort(key=lambda o: (o[0], o[1]))
        # overlapping substitutions are an error
        out, cur = [], 0
        linemap = []
        src_line = self.item.line
        log = []

        def emit(s, from_src):
            nonlocal src_line
            parts = s.split("\n")
            for i, p in enumerate(parts):
                if i > 0:
                    linemap.append(None)  # placeholder, fixed below
                    if from_src:
                        src_line += 1
            out.append(s)

        # simpler: build text, then compute linemap by replaying
        text = []
        segs = []  # (string, is_source)
        for (a, b, new, tag) in ops:
            if a < cur:
                raise Lost("%r: overlapping edits at %d (%s)" % (self.item, a, tag))
            segs.append((self.text[cur:a], True))
            if b > a:
                line = self.item.src.text.count("\n", 0, self.base + a) + 1
                log.append({"rule": tag, "file": self.item.src.rel, "line": line,
                            "before": self.text[a:b], "after": new})
                segs.append((new, "sub"))
            else:
                segs.append((new, False))
            cur = b
        segs.append((self.text[cur:], True))
        line = self.item.line
        cur_line_src = line
        linemap = [line]
        for s, kind in segs:
            for ch in s:
                if ch == "\n":
                    if kind is True or kind == "sub":
                        cur_line_src += 1
                        linemap.append(cur_line_src)
                    else:
                        linemap.append(None if False else cur_line_src)
            text.append(s)
        return "".join(text), log, linemap


# --------------------------------------------------------------------------
# generated file assembly
# --------------------------------------------------------------------------

class Gen:
    """Accumulates the generated Verus file plus its provenance map."""

    def __init__(self, unit):
        self.unit = unit
        self.lines = []
        self.items = []      # {name, file, src_line, src_end, sha, gen_start, gen_end, linemap, under_contract}
        self.rewrites = []
        self.contract_clauses = 0

    def raw(self, text):
        """Hand-written scaffolding / spec / proof text (never executable repo code)."""
        for l in text.split("\n"):
            self.lines.append(l)

    def emit(self, piece, name=None, under_contract=True, trusted=False):
        text, log, linemap = piece.render()
        start = len(self.lines) + 1
        tl = text.split("\n")
        self.lines.extend(tl)
        self.items.append({
            "name": name or piece.item.qual(),
            "kind": piece.item.kind,
            "file": piece.item.src.rel,
            "src_line": piece.item.line,
            "src_end": piece.item.end_line,
            "sha256": piece.item.sha(),
            "gen_start": start,
            "gen_end": start + len(tl) - 1,
            "linemap": linemap[:len(tl)],
            "under_contract": under_contract,
            "trusted": trusted,
        })
        self.rewrites.extend(log)

    def text(self):
        return "\n".join(self.lines) + "\n"

    def locate(self, gen_line):
        """generated line -> (item name, file, source line) or None."""
        for it in self.items:
            if it["gen_start"] <= gen_line <= it["gen_end"]:
                if it["kind"] == "static":
                    # table rows: name the generated per-row lemma, keep the file of the static
                    k = min(gen_line, len(self.lines)) - 1
                    while k >= 0:
                        m = re.search(r"\bfn\s+(\w+)", self.lines[k])
                        if m:
                            return "lemma::" + m.group(1), it["file"], it["src_line"]
                        k -= 1
                lm = it["linemap"]
                k = gen_line - it["gen_start"]
                sl = lm[k] if k < len(lm) else it["src_line"]
                return it["name"], it["file"], sl
        # hand-written ghost text (lemmas): name it after the enclosing fn
        k = min(gen_line, len(self.lines)) - 1
        while k >= 0:
            m = re.search(r"\bfn\s+(\w+)", self.lines[k])
            if m:
                return "lemma::" + m.group(1), None, None
            k -= 1
        return None


CLAUSE_RE = re.compile(r"^\s*(requires|ensures|invariant|decreases|recommends|invariant_except_break)\b")


def count_clauses(text):
    """number of top-level contract clauses in a contract text (comma separated)."""
    n = 0
    depth = 0
    cur = ""
    body = re.sub(r"\b(requires|ensures|invariant|decreases|recommends|invariant_except_break)\b", "\x00", text)
    for ch in body:
        if ch in "([{":
            depth += 1
        elif ch in ")]}":
            depth -= 1
        if (ch == "," and depth == 0) or ch == "\x00":
            if cur.strip():
                n += 1
            cur = ""
        else:
            cur += ch
    if cur.strip():
        n += 1
    return n


if __name__ == "__main__":
    s = Source.get(sys.argv[1])
    for it in s.walk():
        print(it.kind, it.qual(), it.line, it.end_line)
