#!/bin/sh
# tools/seed_intake.sh <ID> <dir with SEED_patch.diff, SEED_notes.md, rspirv/tests/seed_demo.rs>
# Confirms a seeded change independently in a fresh scratch worktree of /repo:
#   suite green with the change; demo fails with it; demo passes without it.
# Then stores it under /verif/seeded/<ID>/ and removes the scratch worktree.
set -u
ID=$1; SRC=$2
W=$(mktemp -d /tmp/intake.XXXXXX)
git -C /repo worktree add -q --detach "$W/wt" HEAD || exit 3
export CARGO_TARGET_DIR="$W/target"
cd "$W/wt" || exit 3
if ! git apply "$SRC/SEED_patch.diff"; then echo "INTAKE $ID: patch does not apply"; cd /; git -C /repo worktree remove --force "$W/wt"; rm -rf "$W"; exit 3; fi
SUITE=$(cargo test --workspace --offline 2>&1 | grep -E "^test result" | awk '{p+=$4; f+=$6} END {print p" passed "f" failed"}')
cp "$SRC/rspirv/tests/seed_demo.rs" rspirv/tests/seed_demo.rs
cargo test --offline -p rspirv --test seed_demo >"$W/with.log" 2>&1; WITH=$?
git apply -R "$SRC/SEED_patch.diff"
cargo test --offline -p rspirv --test seed_demo >"$W/without.log" 2>&1; WITHOUT=$?
echo "INTAKE $ID: suite with change: $SUITE ; demo with change rc=$WITH (want != 0) ; demo without change rc=$WITHOUT (want 0)"
OK=0
case "$SUITE" in *" 0 failed") ;; *) OK=1;; esac
[ "$WITH" -ne 0 ] || OK=1
[ "$WITHOUT" -eq 0 ] || OK=1
if [ $OK -eq 0 ]; then
  D=/verif/seeded/$ID; mkdir -p "$D"
  cp "$SRC/SEED_patch.diff" "$D/patch.diff"; cp "$SRC/rspirv/tests/seed_demo.rs" "$D/seed_demo.rs"; cp "$SRC/SEED_notes.md" "$D/notes.md" 2>/dev/null
  grep -E "^test |panicked|assert" "$W/with.log" | head -12 > "$D/demo_with_change.log"
  echo "INTAKE $ID: confirmed, stored in $D"
else
  echo "INTAKE $ID: NOT confirmed"; tail -5 "$W/with.log"; tail -5 "$W/without.log"
fi
cd /; git -C /repo worktree remove --force "$W/wt"; rm -rf "$W"
exit $OK
