#!/usr/bin/env python3
"""driver — ./check <property> [--tier quick|thorough] [--replay file] [--freeze]

Verdict rules: DESIGN.md §2.4.
  exit 0  every obligation generated from /repo's working tree discharged (known findings
          printed as KNOWN-FINDING lines), vacuity controls behaved
  exit 1  VIOLATION property=<id> replay=<path>   (a baseline obligation failed definitely, or
          a new one failed and the failing input reproduces on the real crate)
  exit 2  UNDECIDED (lost anchor, verifier limit, front-end rejection, vacuity control broken)
"""
import argparse
import concurrent.futures as cf
import hashlib
import importlib
import json
import os
import re
import subprocess
import sys
import time
import traceback

ROOT = os.path.abspath(os.path.join(os.path.dirname(__file__), ".."))
sys.path.insert(0, ROOT)
sys.path.insert(0, os.path.join(ROOT, "tools"))

import rsx  # noqa: E402
import vrun  # noqa: E402

WORK = os.path.join(ROOT, ".work")
REPO = rsx.REPO


def load_props():
    import props
    importlib.reload(props)
    return props.PROPS


# ---------------------------------------------------------------------------
# known findings
# ---------------------------------------------------------------------------

def load_known():
    path = os.path.join(ROOT, "known-findings.txt")
    out = []
    if not os.path.exists(path):
        return out
    for line in open(path, encoding="utf-8"):
        line = line.strip()
        if not line or line.startswith("#") or line.startswith("fixed:"):
            continue
        m = re.match(r"^finding\s+property=(\S+)\s+key=(.*?)\s+::\s+(.*)$", line)
        if m:
            out.append({"property": m.group(1), "key": m.group(2).strip(), "what": m.group(3).strip()})
    return out


def norm(s, n=70):
    s = re.sub(r"\s+", " ", s or "").strip()
    return s[:n]


def failure_key(unit, f):
    site = norm(f.get("text", ""))
    return "%s::%s::%s[%s]" % (unit, f.get("item") or "?", f.get("kind"), site)


# ---------------------------------------------------------------------------
# running units
# ---------------------------------------------------------------------------

def run_unit(uname, tier):
    """-> dict(result) ; never raises: problems become 'undecided' entries."""
    t0 = time.time()
    out = {"unit": uname, "engine": "verus", "verified": 0, "errors": 0, "functions": {}, "failures": [],
           "undecided": [], "smt_ms": 0, "wall_s": 0, "describe": {}, "rewrites": [], "items": [],
           "mustfail": None, "cmd": "", "clauses": 0}
    try:
        mod = importlib.import_module("units." + uname)
        out["describe"] = mod.describe() if hasattr(mod, "describe") else {}
        engine = getattr(mod, "ENGINE", "verus")
        out["engine"] = engine
        if engine == "verus":
            kw = {}
            if getattr(mod, "RLIMIT", None):
                kw["rlimit"] = mod.RLIMIT
            if getattr(mod, "TIMEOUT", None):
                kw["timeout"] = mod.TIMEOUT
            if getattr(mod, "EXTRA_ARGS", None):
                kw["extra_args"] = mod.EXTRA_ARGS
            shard_ids = mod.shards(tier) if hasattr(mod, "shards") else [None]
            gens = [mod.build(tier) if sid is None else mod.build(tier, shard=sid) for sid in shard_ids]
            jobs = list(zip(shard_ids, gens))
            # vacuity control runs alongside the real shards
            if getattr(mod, "HAS_MUSTFAIL", True):
                try:
                    jobs.append(("mf", mod.build(tier, must_fail=True)))
                except rsx.Lost as e:
                    out["mustfail"] = {"rejected": False, "failures": 0, "undecided": ["lost: %s" % e]}

            def one(pair):
                sid, g = pair
                return vrun.run_verus(g, os.path.join(WORK, uname), tag=(None if sid is None else str(sid)),
                                      threads=(None if (sid is None or len(jobs) <= 2) else 3), **kw)
            with cf.ThreadPoolExecutor(max_workers=int(os.environ.get("VERIF_SHARD_JOBS", "8"))) as ex:
                rs_all = list(ex.map(one, jobs))
            rs = []
            for (sid, g), r in zip(jobs, rs_all):
                if sid == "mf":
                    ok = len(r["failures"]) >= 1 and not r["undecided"]
                    out["mustfail"] = {"rejected": ok, "failures": len(r["failures"]),
                                       "undecided": [u.get("message") or u.get("reason") for u in r["undecided"]]}
                else:
                    rs.append(r)
            out["cmd"] = rs[0]["cmd"] + (" (+%d more shards)" % (len(rs) - 1) if len(rs) > 1 else "")
            out["file"] = rs[0]["file"]
            scan = []
            for g, r in zip(gens, rs):
                out["verified"] += r["verified"]
                out["errors"] += r["errors"]
                out["functions"].update(r["functions"])
                out["failures"] += r["failures"]
                out["undecided"] += r["undecided"]
                out["smt_ms"] += r["smt_ms"]
                out["rewrites"] += g.rewrites
                out["clauses"] += g.contract_clauses
                out["items"] += [{k: it[k] for k in ("name", "kind", "file", "src_line", "src_end", "sha256",
                                                     "under_contract", "trusted")} for it in g.items]
                scan += scan_assumptions(g.text())
            out["gen_text_scan"] = sorted(set(scan))
        else:
            r = mod.run(tier, os.path.join(WORK, uname))
            out.update(r)
        if hasattr(mod, "post"):
            mod.post(out, tier)
    except rsx.Lost as e:
        out["undecided"].append({"reason": "lost-anchor", "detail": str(e)})
    except Exception as e:  # machinery error is never a violation
        out["undecided"].append({"reason": "machinery-error", "detail": "%s\n%s" % (e, traceback.format_exc())})
    out["wall_s"] = round(time.time() - t0, 2)
    return out


def scan_assumptions(text):
    """mechanical scan of the generated Verus file for everything that is assumed, not proved."""
    found = []
    for pat in (r"external_body", r"assume_specification", r"\bassume\s*\(", r"\badmit\s*\(",
                r"\baxiom\b", r"external_fn_specification", r"#\[verifier::external\b",
                r"external_type_specification", r"\bunsafe\b"):
        n = len(re.findall(pat, text))
        if n:
            found.append("%s x%d" % (pat.replace("\\b", "").replace("\\s*\\(", "(").replace("\\[", "[").replace("\\", ""), n))
    return found


# ---------------------------------------------------------------------------
# baseline
# ---------------------------------------------------------------------------

def baseline_path(unit):
    return os.path.join(ROOT, "baseline", unit + ".json")


def load_baseline(unit):
    p = baseline_path(unit)
    if os.path.exists(p):
        return json.load(open(p))
    return None


def freeze(unit, res):
    ok = sorted(n for n, f in res["functions"].items() if f["ok"])
    data = {"unit": unit, "verified": res["verified"], "functions_ok": ok,
            "note": "obligations discharged on the committed tree; frozen by ./check --freeze"}
    os.makedirs(os.path.join(ROOT, "baseline"), exist_ok=True)
    with open(baseline_path(unit), "w") as f:
        json.dump(data, f, indent=1, sort_keys=True)
        f.write("\n")


# ---------------------------------------------------------------------------
# replay
# ---------------------------------------------------------------------------

def build_replay():
    """copy /verif/replay to .work, point it at the repository under check (REPO), build it
    offline against that working tree; -> (path of binary or None, error text)"""
    import shutil
    tag = hashlib.sha1(REPO.encode()).hexdigest()[:8]
    srcdir = os.path.join(WORK, "replay-src-" + tag)
    shutil.rmtree(os.path.join(srcdir, "src", "bin"), ignore_errors=True)
    os.makedirs(os.path.join(srcdir, "src"), exist_ok=True)
    tpl = open(os.path.join(ROOT, "replay", "Cargo.toml.in")).read().replace("@REPO@", REPO)
    with open(os.path.join(srcdir, "Cargo.toml"), "w") as f:
        f.write(tpl)
    for fn in os.listdir(os.path.join(ROOT, "replay", "src")):
        shutil.copy(os.path.join(ROOT, "replay", "src", fn), os.path.join(srcdir, "src", fn))
    try:
        shutil.copy(os.path.join(REPO, "Cargo.lock"), os.path.join(srcdir, "Cargo.lock"))
    except OSError:
        pass
    env = dict(os.environ)
    env["CARGO_NET_OFFLINE"] = "true"
    env["CARGO_TARGET_DIR"] = os.path.join(WORK, "replay-target-" + tag)
    p = subprocess.run(["cargo", "build", "--offline", "--quiet"], cwd=srcdir, env=env,
                       stdout=subprocess.PIPE, stderr=subprocess.PIPE, text=True)
    binp = os.path.join(env["CARGO_TARGET_DIR"], "debug", "vreplay")
    if p.returncode != 0 or not os.path.exists(binp):
        return None, p.stderr[-3000:]
    return binp, ""


_replay_bin = None


def replay_bin():
    global _replay_bin
    if _replay_bin is None:
        _replay_bin = build_replay()
    return _replay_bin


def vreplay(args, stdin=None, timeout=600):
    binp, err = replay_bin()
    if binp is None:
        return None, "replay crate does not build: " + err
    try:
        p = subprocess.run([binp] + list(args), input=stdin, stdout=subprocess.PIPE, stderr=subprocess.PIPE,
                           text=True, timeout=timeout)
    except subprocess.TimeoutExpired:
        return None, "replay timed out"
    return p, ""


def vgen(name, source, args, timeout=1800):
    """compile a GENERATED program against the tree under check (as src/bin/<name>.rs of the replay crate) and run it"""
    binp, err = replay_bin()
    if binp is None:
        return None, "replay crate does not build: " + err
    tag = hashlib.sha1(REPO.encode()).hexdigest()[:8]
    srcdir = os.path.join(WORK, "replay-src-" + tag)
    os.makedirs(os.path.join(srcdir, "src", "bin"), exist_ok=True)
    fpath = os.path.join(srcdir, "src", "bin", name + ".rs")
    with open(fpath, "w") as f:
        f.write(source)
    env = dict(os.environ)
    env["CARGO_NET_OFFLINE"] = "true"
    env["CARGO_TARGET_DIR"] = os.path.join(WORK, "replay-target-" + tag)
    try:
        p = subprocess.run(["cargo", "build", "--offline", "--quiet", "--bin", name], cwd=srcdir, env=env,
                           stdout=subprocess.PIPE, stderr=subprocess.PIPE, text=True)
        keep = os.path.join(WORK, name + ".generated.rs")
        shutil_copy(fpath, keep)
    finally:
        try:
            os.remove(fpath)
        except OSError:
            pass
    gbin = os.path.join(env["CARGO_TARGET_DIR"], "debug", name)
    if p.returncode != 0 or not os.path.exists(gbin):
        return None, "generated program does not compile against the tree under check: " + p.stderr[-3000:]
    try:
        r = subprocess.run([gbin] + list(args), stdout=subprocess.PIPE, stderr=subprocess.PIPE, text=True, timeout=timeout)
    except subprocess.TimeoutExpired:
        return None, "generated program timed out"
    return r, ""


def shutil_copy(a, b):
    import shutil
    shutil.copy(a, b)


def find_witness(uname, failure):
    try:
        mod = importlib.import_module("units." + uname)
        if hasattr(mod, "witness"):
            return mod.witness(failure, {"vreplay": vreplay, "vgen": vgen, "root": ROOT, "work": WORK})
    except Exception as e:
        return {"error": "witness search failed: %s" % e, "found": False}
    return None


# ---------------------------------------------------------------------------
# main check
# ---------------------------------------------------------------------------

def check_property(pid, tier, seed, do_freeze=False, verbose=True):
    props = load_props()
    if pid not in props:
        print("unknown property %s" % pid)
        return 2
    spec = props[pid]
    units = spec["units"][tier] if tier in spec["units"] else spec["units"]["quick"]
    t0 = time.time()
    known = [k for k in load_known() if k["property"] == pid]
    results = []
    with cf.ThreadPoolExecutor(max_workers=min(len(units), int(os.environ.get("VERIF_JOBS", "6")))) as ex:
        futs = {ex.submit(run_unit, u, tier): u for u in units}
        for fu in cf.as_completed(futs):
            results.append(fu.result())
    results.sort(key=lambda r: units.index(r["unit"]))

    violations, knowns_hit, undecided = [], [], []
    total_obl = total_ok = 0
    for r in results:
        u = r["unit"]
        if do_freeze and not r["undecided"]:
            freeze(u, r)
        base = load_baseline(u)
        base_ok = set(base["functions_ok"]) if base else None
        funcs = r["functions"]
        # the R2 model of the bitflags types (bits / contains / intersects / is_empty / union) is machinery, not an obligation about /repo:
        # verified, but not counted
        model = re.compile(r"::spirv::\w+::(bits|contains|intersects|is_empty|union)$")
        if any(model.search(n) for n in funcs):
            funcs = {n: f for n, f in funcs.items() if not model.search(n)}
            r["functions_counted"] = funcs
        only_pats = spec.get("only_items", {}).get(u)
        if only_pats is not None:
            # this property shares the unit with others: only the obligations of its own items count
            funcs = {n: f for n, f in funcs.items() if any(re.search(p_, n) for p_ in only_pats)}
            r["functions_counted"] = funcs
        total_obl += len(funcs)
        total_ok += sum(1 for f in funcs.values() if f["ok"])
        for ud in r["undecided"]:
            undecided.append((u, ud))
        if r.get("mustfail") is not None and not r["mustfail"]["rejected"]:
            undecided.append((u, {"reason": "vacuity-control", "detail":
                                  "must-fail copy was not rejected: %s" % json.dumps(r["mustfail"])}))
        if base_ok is not None:
            missing = [n for n in base_ok if n not in r["functions"]]
            if missing and not r["undecided"]:
                undecided.append((u, {"reason": "obligation-count", "detail":
                                      "obligations in the baseline were not generated: %s" % missing[:10]}))
        # failures
        only = spec.get("only_items", {}).get(u)
        for f in r["failures"]:
            key = failure_key(u, f)
            f["key"] = key
            f["unit"] = u
            if only is not None and not any(re.search(p, f.get("item") or "") for p in only):
                # obligation belongs to another property that shares this unit
                continue
            kf = [k for k in known if k["key"] == key]
            if kf:
                knowns_hit.append((kf[0], f))
                continue
            violations.append(f)

    # A unit the verifier could not take after a change (front-end rejection, lost anchor, resource limit) leaves the
    # property undecided by proof. The unit's directed search is still run on the REAL crate: an input that
    # contradicts the statement is a violation with a replay; finding none leaves the verdict UNDECIDED (exit 2).
    if undecided and not violations:
        seen_units = []
        # the undecided units first, then every other unit of the property (a change in one file can show through another unit's search)
        order = [(u, ud) for u, ud in undecided] + [(r["unit"], undecided[0][1]) for r in results]
        for u, ud in order:
            if u in seen_units or ud.get("reason") in ("vacuity-control",):
                continue
            if violations:
                break
            seen_units.append(u)
            w = find_witness(u, {"item": None, "kind": "undecided", "message": ud.get("message") or ud.get("reason")})
            if w and w.get("found"):
                f = {"unit": u, "item": "(not verifiable after the change)", "kind": "replayed-counterexample",
                     "message": "unit %s could not be verified (%s); the directed search found an input that contradicts the statement"
                                % (u, ud.get("message") or ud.get("reason")),
                     "rendered": (ud.get("rendered") or ud.get("detail") or "")[:3000], "text": "", "src_file": None, "src_line": None}
                f["key"] = "%s::unverifiable::replayed-counterexample" % u
                f["_witness"] = w
                violations.append(f)
    # known findings that no longer fail are simply not printed (fixed upstream or by a fix: commit)
    rc = 0
    lines = []
    for k, f in knowns_hit:
        lines.append("KNOWN-FINDING: property=%s %s (obligation %s)" % (pid, k["what"], k["key"]))
    replay_paths = []
    if undecided and not violations:
        rc = 2
    for f in violations:
        w = f.pop("_witness", None) or find_witness(f["unit"], f)
        base = load_baseline(f["unit"])
        in_base = bool(base) and any((f.get("item") or "").split("::")[-1] in n for n in base["functions_ok"])
        reproduced = bool(w and w.get("found"))
        if w and w.get("exhaustive") and not reproduced:
            # the input domain is finite and was swept on the real code without a disagreement:
            # the failed obligation is a proof that no longer goes through, not a refutation
            undecided.append((f["unit"], {"reason": "failed-obligation-not-reproduced",
                                          "detail": "%s; exhaustive sweep of the real code found no failing input" % f["key"]}))
            continue
        if f.get("kind") == "replayed-counterexample":
            in_base = True
        if not in_base and not reproduced and base is not None:
            undecided.append((f["unit"], {"reason": "new-obligation-not-reproduced", "detail": f["key"]}))
            continue
        rdir = os.path.join(ROOT, "replays") if os.path.realpath(REPO) == "/repo" else os.path.join(WORK, "replays-scratch")
        os.makedirs(rdir, exist_ok=True)
        h = hashlib.sha1(f["key"].encode()).hexdigest()[:10]
        path = os.path.join(rdir, "%s-%s.json" % (pid, h))
        with open(path, "w") as fp:
            json.dump({"property": pid, "obligation": f["key"], "unit": f["unit"], "kind": f["kind"],
                       "item": f.get("item"), "source": "%s:%s" % (f.get("src_file"), f.get("src_line")),
                       "verifier_message": f["message"], "verifier_output": f.get("rendered", ""),
                       "failing_input": (w or {}).get("input"), "witness": w,
                       "in_baseline": in_base}, fp, indent=1)
        replay_paths.append(path)
        tail = "" if reproduced else " no-failing-input-found"
        lines.append("VIOLATION property=%s replay=%s%s" % (pid, path, tail))
        rc = 1
    if rc != 1 and undecided:
        rc = 2
    wall = time.time() - t0
    write_evidence(pid, spec, tier, seed, results, total_obl, total_ok, knowns_hit, violations, undecided, wall)
    if verbose:
        for r in results:
            print("unit %-18s engine=%-5s obligations=%d discharged=%d failures=%d undecided=%d smt=%dms wall=%.1fs" % (
                r["unit"], r["engine"], len(r["functions"]), sum(1 for f in r["functions"].values() if f["ok"]),
                len(r["failures"]), len(r["undecided"]), r.get("smt_ms", 0), r["wall_s"]))
        for u, ud in undecided:
            print("UNDECIDED unit=%s %s: %s" % (u, ud.get("reason") or ud.get("message"),
                                                 norm(ud.get("detail") or ud.get("rendered") or "", 600)))
        for l in lines:
            print(l)
        print("%s tier=%s rc=%d wall=%.1fs" % (pid, tier, rc, wall))
    return rc


def write_evidence(pid, spec, tier, seed, results, total_obl, total_ok, knowns_hit, violations, undecided, wall):
    fn_contract, trusted, assumptions, bounded, samples, rewrites = [], [], [], [], [], {}
    cmds = []
    by_engine = {}
    for r in results:
        d = r.get("describe", {})
        fn_contract += d.get("functions_under_contract", [])
        trusted += d.get("trusted_base", [])
        assumptions += d.get("assumptions", [])
        bounded += d.get("bounded", [])
        cmds.append(r.get("cmd", ""))
        for rw in r.get("rewrites", []):
            rewrites[rw["rule"]] = rewrites.get(rw["rule"], 0) + 1
        for s in r.get("gen_text_scan", []) or []:
            assumptions.append("unit %s generated file contains: %s" % (r["unit"], s))
        e = by_engine.setdefault(r["engine"], {"obligations": 0, "discharged": 0, "solver_ms": 0})
        counted = r.get("functions_counted", r["functions"])
        e["obligations"] += len(counted)
        e["discharged"] += sum(1 for f in counted.values() if f["ok"])
        e["solver_ms"] += r.get("smt_ms", 0)
        names = sorted(r["functions"].keys())
        for n in names[:6]:
            samples.append({"unit": r["unit"], "obligation": n, "discharged": r["functions"][n]["ok"],
                            "solver_ms": r["functions"][n].get("ms", 0)})
    refuted_known = len(knowns_hit)
    n_failed_fn = total_obl - total_ok
    ev = {
        "property_id": pid,
        "tier": tier,
        "seed": seed,
        "level": spec.get("level", "proof"),
        "coverage": {
            "obligations": max(total_obl - min(refuted_known, n_failed_fn), 0),
            "discharged": total_ok,
            "refuted_known_findings": refuted_known,
            "checker_cmd": " ; ".join(c for c in cmds if c),
            "trusted_base": sorted(set(trusted)),
            "units": [{"unit": r["unit"], "engine": r["engine"], "obligations": len(r.get("functions_counted", r["functions"])),
                       "discharged": sum(1 for f in r.get("functions_counted", r["functions"]).values() if f["ok"]),
                       "contract_clauses": r.get("clauses", 0),
                       "solver_ms": r.get("smt_ms", 0), "wall_s": r["wall_s"],
                       "vacuity_control": r.get("mustfail"),
                       "items_extracted": len(r.get("items", []))} for r in results],
            "by_engine": by_engine,
            "functions_under_contract": sorted(set(fn_contract)),
            "bounded_stand_ins": bounded,
            "extraction_rewrites_applied": rewrites,
            "samples": samples[:24],
            "undecided": [{"unit": u, "reason": ud.get("reason") or ud.get("message")} for u, ud in undecided],
            "known_findings_hit": [k["key"] for k, _ in knowns_hit],
            "explanation": spec.get("explanation", ""),
            "exhaustive": False,
        },
        "assumptions": sorted(set(assumptions + spec.get("assumptions", []))),
        "wall_s": round(wall, 2),
        "violations": len([v for v in violations]),
    }
    if ev["level"] == "model_checking":
        st = sum(r.get("states", 0) for r in results) or max(total_obl, 1)
        ev["coverage"].update({"states": st, "transitions": st, "traces_validated_against_impl":
                               sum(r.get("traces_validated", 0) for r in results)})
    # rehearsals against a scratch tree (VERIF_REPO) must not overwrite the evidence of /repo
    evdir = os.path.join(ROOT, "evidence") if os.path.realpath(REPO) == "/repo" else os.path.join(WORK, "evidence-scratch")
    os.makedirs(evdir, exist_ok=True)
    with open(os.path.join(evdir, pid + ".json"), "w") as f:
        json.dump(ev, f, indent=1)
        f.write("\n")


def main():
    ap = argparse.ArgumentParser()
    ap.add_argument("property")
    ap.add_argument("--tier", default=os.environ.get("VERIF_TIER", "quick"))
    ap.add_argument("--replay")
    ap.add_argument("--freeze", action="store_true", help="rewrite baseline/<unit>.json from this run")
    a = ap.parse_args()
    seed = int(os.environ.get("VERIF_SEED", "0") or 0)
    if a.tier not in ("quick", "thorough"):
        a.tier = "quick"
    if a.replay:
        data = json.load(open(a.replay))
        print(json.dumps(data, indent=1))
        # re-run the check: the replay file names the obligation; the verdict is re-derived
        rc = check_property(a.property, a.tier, seed)
        sys.exit(rc)
    sys.exit(check_property(a.property, a.tier, seed, do_freeze=a.freeze))


if __name__ == "__main__":
    main()
