#!/usr/bin/env python3
"""krun — build a Kani mini crate in .work, run harnesses, classify results.

The mini crates never copy repository logic: they depend on the real `spirv` crate by path or
pull single real files in with `#[path = "<REPO>/…"] mod …;`. What a harness asserts is written
from the property statement. Harness kinds:
  complete : loop-free (or fully unwound with unwinding assertions) over full-domain symbolic
             inputs — a proof
  bounded  : input size bounded by the stated constant — a bounded stand-in, never counted
             as proved (reported under `bounded_stand_ins`)
"""
import hashlib
import os
import re
import shutil
import subprocess
import time

import rsx


def prepare(unit, files, workroot):
    """files: {relative path: text}; `@REPO@` is substituted. -> crate dir"""
    tag = hashlib.sha1(rsx.REPO.encode()).hexdigest()[:8]
    d = os.path.join(workroot, "kani-%s-%s" % (unit, tag))
    os.makedirs(os.path.join(d, "src"), exist_ok=True)
    for rel, text in files.items():
        p = os.path.join(d, rel)
        os.makedirs(os.path.dirname(p), exist_ok=True)
        text = text.replace("@REPO@", rsx.REPO)
        old = open(p).read() if os.path.exists(p) else None
        if old != text:
            with open(p, "w") as f:
                f.write(text)
    try:
        shutil.copy(os.path.join(rsx.REPO, "Cargo.lock"), os.path.join(d, "Cargo.lock"))
    except OSError:
        pass
    return d


HARNESS_RE = re.compile(r"^Checking harness (\S+?)\.\.\.\s*$", re.M)


def run_kani(crate_dir, harnesses, flags=(), timeout=3600, jobs=None, unit="kani", playback=True):
    """runs all harnesses (in parallel when jobs is given); harnesses that fail are re-run one
    by one with concrete playback so that the failure carries concrete input values."""
    r = _run_kani(crate_dir, harnesses, flags, timeout, jobs, unit)
    if playback and r["failures"]:
        failed = sorted(set(f["item"].split("::", 1)[1] for f in r["failures"]))[:4]
        for h in failed:
            r2 = _run_kani(crate_dir, {h: harnesses[h]}, list(flags) + ["-Z", "concrete-playback",
                           "--concrete-playback=print"], timeout, None, unit, log="kani.playback.log")
            pb = [f.get("playback") for f in r2["failures"] if f.get("playback")]
            for f in r["failures"]:
                if f["item"] == "harness::" + h and pb:
                    f["playback"] = pb[0]
    return r


def _run_kani(crate_dir, harnesses, flags=(), timeout=3600, jobs=None, unit="kani", log="kani.log"):
    """-> result dict in the driver's format. harnesses: {name: {"kind": complete|bounded, "bound": str}}"""
    cmd = ["cargo", "kani"] + list(flags)
    for h in harnesses:
        cmd += ["--harness", h]
    if jobs:
        cmd += ["-j", str(jobs), "--output-format=terse"]
    env = dict(os.environ)
    env["CARGO_NET_OFFLINE"] = "true"
    env.pop("RUSTUP_TOOLCHAIN", None)
    t0 = time.time()
    try:
        p = subprocess.run(cmd, cwd=crate_dir, env=env, stdout=subprocess.PIPE, stderr=subprocess.STDOUT,
                           text=True, timeout=timeout)
        out, rc, timed_out = p.stdout, p.returncode, False
    except subprocess.TimeoutExpired as e:
        out = e.stdout or ""
        if isinstance(out, bytes):
            out = out.decode("utf-8", "replace")
        rc, timed_out = -1, True
    wall = time.time() - t0
    with open(os.path.join(crate_dir, log), "w") as f:
        f.write(out)
    res = {"engine": "kani", "cmd": "cd %s && CARGO_NET_OFFLINE=true %s" % (crate_dir, " ".join(cmd)),
           "functions": {}, "failures": [], "undecided": [], "smt_ms": 0, "verified": 0, "errors": 0,
           "wall_s": round(wall, 2), "checks": 0}
    if timed_out:
        res["undecided"].append({"reason": "timeout", "detail": "cargo kani exceeded %ds" % timeout})
    # split per harness (plain mode: "Checking harness X..." then its report; threaded terse
    # mode: "Thread k: Checking harness X..." ... "Thread k: <report>")
    seen = {}
    if jobs:
        cur = {}
        for m in re.finditer(r"^Thread (\d+): (?:Checking harness (\S+?)\.\.\.\s*$|\s*\n(VERIFICATION RESULT:.*?Verification Time: [0-9.]+s))",
                             out, re.M | re.S):
            if m.group(2):
                cur[m.group(1)] = m.group(2)
            elif m.group(1) in cur:
                seen[cur.pop(m.group(1))] = m.group(3)
    else:
        parts = HARNESS_RE.split(out)
        for i in range(1, len(parts), 2):
            seen[parts[i]] = parts[i + 1]
    for h, meta in harnesses.items():
        key = None
        for name in seen:
            if name == h or name.endswith("::" + h):
                key = name
        fname = "%s::%s" % (unit, h)
        if key is None:
            res["functions"][fname] = {"ok": False, "ms": 0, "mode": meta.get("kind", "complete")}
            if not timed_out and not any(u["reason"] == "harness-not-run" for u in res["undecided"]):
                res["undecided"].append({"reason": "harness-not-run", "detail": "%s: %s" % (h, out[-1500:])})
            continue
        body = seen[key]
        ok = "VERIFICATION:- SUCCESSFUL" in body
        failed = "VERIFICATION:- FAILED" in body
        m = re.search(r"Verification Time: ([0-9.]+)s", body)
        ms = int(float(m.group(1)) * 1000) if m else 0
        res["smt_ms"] += ms
        nchecks = len(re.findall(r"^Check \d+:", body, re.M))
        mt = re.search(r"\*\* \d+ of (\d+) failed", body)
        if mt and not nchecks:
            nchecks = int(mt.group(1))
        res["checks"] += nchecks
        res["functions"][fname] = {"ok": ok, "ms": ms, "mode": meta.get("kind", "complete"), "checks": nchecks}
        if ok:
            res["verified"] += 1
        elif failed:
            res["errors"] += 1
            # collect failed checks
            fails = []
            for cm in re.finditer(r"Check \d+: (\S+)\n\s+- Status: FAILURE\n\s+- Description: \"(.*?)\"\n\s+- Location: (.*?)\n",
                                  body):
                fails.append({"check": cm.group(1), "description": cm.group(2), "location": cm.group(3)})
            for cm in re.finditer(r"Failed Checks: (.*?)\n\s*File: (.*?)\n", body):
                fails.append({"check": "terse.assertion.1", "description": cm.group(1), "location": cm.group(2)})
            unwind = [f for f in fails if "unwinding assertion" in f["description"]]
            # concrete values, if printed
            cex = re.findall(r"concrete_vals:.*?\n|// (\d+(?:, \d+)*)\n\s+vec!\[(.*?)\]", body)
            real = [f for f in fails if "unwinding assertion" not in f["description"]]
            if not real and unwind:
                res["undecided"].append({"reason": "unwinding-bound-too-small", "detail": "%s: %s" % (h, unwind[0])})
                continue
            if not fails:
                res["undecided"].append({"reason": "kani-failed-without-check", "detail": "%s: %s" % (h, body[-1500:])})
                continue
            for f in real[:5]:
                res["failures"].append({
                    "message": "Kani check FAILURE: %s" % f["description"], "kind": "kani_" + f["check"].split(".")[-2]
                    if "." in f["check"] else "kani_check",
                    "gen_line": None, "text": f["description"], "item": "harness::" + h,
                    "src_file": None, "src_line": None, "others": [], "location": f["location"],
                    "rendered": body[-3000:], "playback": extract_playback(body)})
        else:
            res["undecided"].append({"reason": "kani-no-verdict", "detail": "%s: %s" % (h, body[-1500:])})
    if rc != 0 and not res["failures"] and not res["undecided"]:
        res["undecided"].append({"reason": "kani-nonzero-exit", "detail": out[-2500:]})
    return res


def extract_playback(body):
    """concrete playback test printed by --concrete-playback=print, if any"""
    m = re.search(r"Concrete playback unit test for .*?```\n(.*?)```", body, re.S)
    return m.group(1) if m else None
