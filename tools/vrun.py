#!/usr/bin/env python3
"""vrun — run Verus on a generated unit file and classify what comes back.

Result classification (DESIGN.md §2.4):
  definite failure : postcondition / precondition / assertion / invariant /
                     overflow / decreases / compute-evaluates-to-false
  undecided        : rlimit, timeouts, unsupported construct, rustc errors,
                     Verus internal errors
"""
import json
import os
import re
import resource
import subprocess
import time

VERUS = os.environ.get("VERIF_VERUS", "verus")

DEFINITE = [
    ("unable to prove post-condition of closure", "closure_postcondition"),
    ("bitvector assertion not satisfied", "assertion"),
    ("decreases not satisfied", "termination"),
    ("cannot show the atomic update", None),
    ("postcondition not satisfied", "postcondition"),
    ("precondition not satisfied", "precondition"),
    ("assertion failed", "assertion"),
    ("invariant not satisfied at end of loop body", "invariant_end"),
    ("invariant not satisfied before loop", "invariant_entry"),
    ("possible arithmetic underflow/overflow", "overflow"),
    ("possible division by zero", "div_by_zero"),
    ("possible bit shift underflow/overflow", "shift_overflow"),
    ("decreases not satisfied", "termination"),
    ("could not prove termination", "termination"),
    ("assertion failed", "assertion"),
    ("assert_by_compute_only failed", "compute"),
    ("failed to simplify down to true", "compute"),
    ("evaluates to false", "compute"),
    ("expression simplifies to false", "compute"),
    ("possible truncation", "truncation"),
    ("recommendation not met", None),
    ("unreachable", "unreachable"),
    ("loop invariant not satisfied", "invariant"),
    ("invariant not satisfied", "invariant"),
]
UNDECIDED_PAT = [
    "Resource limit (rlimit) exceeded", "rlimit", "timed out", "not supported", "unsupported",
    "internal error", "Verus Internal Error", "does not support", "The verifier does not yet support",
]


def _limits():
    try:
        resource.setrlimit(resource.RLIMIT_STACK, (resource.RLIM_INFINITY, resource.RLIM_INFINITY))
    except (ValueError, OSError):
        pass


def run_verus(gen, workdir, rlimit=None, extra_args=(), timeout=3600, threads=None, tag=None, _text=None, _carry=(), _round=0):
    os.makedirs(workdir, exist_ok=True)
    base = gen.unit if tag is None else "%s_%s" % (gen.unit, tag)
    path = os.path.join(workdir, base + ".rs")
    src_text = gen.text() if _text is None else _text
    with open(path, "w") as f:
        f.write(src_text)
    mpath = os.path.join(workdir, base + ".map.json")
    with open(mpath, "w") as f:
        json.dump({"unit": gen.unit, "items": gen.items, "rewrites": gen.rewrites}, f, indent=1)
    cmd = [VERUS, path, "--output-json", "--time", "--error-format=json", "--multiple-errors", "5"]
    if rlimit:
        cmd += ["--rlimit", str(rlimit)]
    if threads:
        cmd += ["--num-threads", str(threads)]
    cmd += list(extra_args)
    env = dict(os.environ)
    env["RUST_MIN_STACK"] = env.get("RUST_MIN_STACK", "1073741824")
    t0 = time.time()
    try:
        p = subprocess.run(cmd, stdout=subprocess.PIPE, stderr=subprocess.PIPE, env=env, cwd=workdir,
                           preexec_fn=_limits, timeout=timeout, text=True)
        out, err, rc = p.stdout, p.stderr, p.returncode
        timed_out = False
    except subprocess.TimeoutExpired as e:
        out = e.stdout or ""
        err = e.stderr or ""
        if isinstance(out, bytes):
            out = out.decode("utf-8", "replace")
        if isinstance(err, bytes):
            err = err.decode("utf-8", "replace")
        rc, timed_out = -1, True
    wall = time.time() - t0
    with open(os.path.join(workdir, base + ".stderr"), "w") as f:
        f.write(err)
    with open(os.path.join(workdir, base + ".stdout"), "w") as f:
        f.write(out)
    res = {"unit": gen.unit, "file": path, "cmd": " ".join(cmd), "rc": rc, "wall_s": round(wall, 2),
           "verified": 0, "errors": 0, "functions": {}, "failures": [], "undecided": [],
           "smt_ms": 0, "timed_out": timed_out}
    js = None
    try:
        k = out.find("{")
        js = json.loads(out[k:]) if k >= 0 else None
    except ValueError:
        js = None
    if js:
        vr = js.get("verification-results", {})
        res["verified"] = vr.get("verified", 0)
        res["errors"] = vr.get("errors", 0)
        res["vir_error"] = vr.get("encountered-vir-error", False)
        tm = js.get("times-ms", {})
        res["smt_ms"] = tm.get("smt", {}).get("smt-run", 0)
        res["total_ms"] = tm.get("total", 0)
        for mod in tm.get("smt", {}).get("smt-run-module-times", []):
            for fb in mod.get("function-breakdown", []):
                fname = fb["function"]
                if "::" in fname:  # crate name (= file name, differs per shard) -> unit name
                    fname = gen.unit + "::" + fname.split("::", 1)[1]
                res["functions"][fname] = {"ok": fb.get("success", False),
                                                    "ms": fb.get("time", 0), "mode": fb.get("mode:", "")}
    else:
        res["undecided"].append({"reason": "no-json", "detail": err[-2000:]})
    if timed_out:
        res["undecided"].append({"reason": "timeout", "detail": "verus exceeded %ds" % timeout})
    # diagnostics
    for line in err.splitlines():
        line = line.strip()
        if not line.startswith("{"):
            continue
        try:
            d = json.loads(line)
        except ValueError:
            continue
        if d.get("level") != "error":
            continue
        msg = d.get("message", "")
        if msg.startswith("aborting due to"):
            continue
        spans = d.get("spans", [])
        prim = [s for s in spans if s.get("is_primary") and s.get("file_name", "").endswith(base + ".rs")]
        anysp = [s for s in spans if s.get("file_name", "").endswith(base + ".rs")]
        sp = (prim or anysp or [None])[0]
        gen_line = sp["line_start"] if sp else None
        text = sp["text"][0]["text"].strip() if sp and sp.get("text") else ""
        loc = gen.locate(gen_line) if gen_line else None
        # the body location for postconditions (secondary span 'at the end of the function body')
        others = []
        for s in anysp:
            if s is sp:
                continue
            l2 = gen.locate(s["line_start"])
            others.append({"gen_line": s["line_start"], "label": s.get("label"), "loc": l2,
                           "text": s["text"][0]["text"].strip() if s.get("text") else ""})
        kind = None
        for pat, k in DEFINITE:
            if pat in msg:
                kind = k
                break
        entry = {"message": msg, "kind": kind, "gen_line": gen_line, "text": text,
                 "item": loc[0] if loc else None, "src_file": loc[1] if loc else None,
                 "src_line": loc[2] if loc else None, "others": others,
                 "rendered": d.get("rendered", "")[:4000]}
        if kind is None and "recommendation not met" in msg:
            continue
        if kind is not None and not any(u in msg for u in UNDECIDED_PAT):
            res["failures"].append(entry)
        else:
            entry["reason"] = "verifier-limit-or-front-end"
            res["undecided"].append(entry)
    if rc != 0 and not res["failures"] and not res["undecided"]:
        res["undecided"].append({"reason": "nonzero-exit", "detail": err[-2000:]})
    # A `by(compute_only)` assertion that the interpreter evaluates to FALSE aborts the whole run before any
    # other obligation is attempted. Record that (definite) failure, drop the `by(compute..)` of exactly that
    # assertion (it is then an ordinary assertion, which still fails for its function) and run again, so the
    # remaining obligations of the file are decided too.
    aborting = [f for f in res["failures"] if f["kind"] == "compute" and res["verified"] == 0 and f.get("gen_line")]
    if aborting and _round < 5:
        lines = src_text.split("\n")
        changed = False
        for f in aborting:
            i = f["gen_line"] - 1
            new = re.sub(r"\s*by\s*\(\s*compute(_only)?\s*\)", " /* by(compute): evaluated to false */", lines[i], count=1)
            if new != lines[i]:
                lines[i] = new
                changed = True
        if changed:
            return run_verus(gen, workdir, rlimit=rlimit, extra_args=extra_args, timeout=timeout, threads=threads, tag=tag,
                             _text="\n".join(lines), _carry=list(_carry) + aborting, _round=_round + 1)
    if aborting and _round >= 5:
        # enough definite failures recorded; the remaining obligations of this file are left undecided
        res["undecided"].append({"reason": "compute-abort-rounds-exhausted", "detail": "more than 5 by(compute) assertions evaluate to false"})
    if _carry:
        items = {f["item"] for f in _carry}
        res["failures"] = list(_carry) + [f for f in res["failures"] if f["item"] not in items]
        res["compute_abort_rounds"] = _round
    return res
