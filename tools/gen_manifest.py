#!/usr/bin/env python3
"""Writes /verif/MANIFEST.json from props.py (single source of truth)."""
import json
import os
import sys

ROOT = os.path.abspath(os.path.join(os.path.dirname(__file__), ".."))
sys.path.insert(0, ROOT)
import props  # noqa: E402

ALL = ["C%02d" % i for i in range(1, 21)]

man = {
    "version": 1,
    "setup_cmd": "./setup.sh",
    "hooks": {
        "guard": "rspirv_verif",
        "enable": "none needed: Verus units are extracted from /repo's working tree on every run, Kani mini crates #[path]-include the unmodified files; the guard name is reserved (--cfg rspirv_verif) and no source commit uses it",
        "baseline_off_cmd": "cd /repo && cargo test --workspace --no-fail-fast --offline",
        "source_commits": [],
        "add_only": True,
    },
    "engines": [
        {"name": "verus", "path": "/usr/local/bin/verus", "serves_properties": sorted(p for p, s in props.PROPS.items() if "verus" in s.get("engines", ["verus"])),
         "kind_free_text": "deductive verifier (Verus 0.2026.09.13, Z3) on functions extracted mechanically from /repo on every run, contracts spliced in from /verif/units + /verif/contracts"},
        {"name": "kani", "path": "/root/.cargo/bin/kani", "serves_properties": sorted(p for p, s in props.PROPS.items() if "kani" in s.get("engines", [])),
         "kind_free_text": "Kani 0.68 / CBMC 6.11 on mini crates that #[path]-include unmodified repository files: complete loop-free proofs and labelled bounded stand-ins"},
    ],
    "checks": [],
    "not_applicable": [],
    "notes": "Contract-based deductive verification of the real code. See DESIGN.md. exit 2 = UNDECIDED (lost anchor / verifier limit), never a VIOLATION.",
}
for pid in ALL:
    if pid in props.PROPS:
        s = props.PROPS[pid]
        man["checks"].append({
            "property_id": pid,
            "quick_cmd": "./check %s --tier quick" % pid,
            "thorough_cmd": "./check %s --tier thorough" % pid,
            "evidence_file": "/verif/evidence/%s.json" % pid,
            "replay_cmd_template": "./check %s --replay {path}" % pid,
            "engine": "+".join(s.get("engines", ["verus"])),
            "level_claimed": {"category": s.get("level", "proof"), "text": s["explanation"],
                              "design_ref": s.get("design_ref", "DESIGN.md §4")},
            "level_note": s.get("level_note", "; ".join(s.get("assumptions", []))),
            "technique": s["technique"],
        })
    else:
        man["not_applicable"].append({"property_id": pid, "reason": props.NOT_APPLICABLE.get(
            pid, "not claimed yet: its unit is not built in this revision (see DESIGN.md §4)")})
with open(os.path.join(ROOT, "MANIFEST.json"), "w") as f:
    json.dump(man, f, indent=1)
    f.write("\n")
print("MANIFEST.json: %d checks, %d not_applicable" % (len(man["checks"]), len(man["not_applicable"])))
