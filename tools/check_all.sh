#!/bin/sh
# tools/check_all.sh [--freeze] [--tier T]: run every claimed property's check in sequence, print one line each
cd "$(dirname "$0")/.." || exit 2
for id in $(python3 -c "import props; print(' '.join(sorted(props.PROPS)))"); do
  ./check $id "$@" > .work/last_$id.log 2>&1; rc=$?
  echo "$id rc=$rc $(grep -c '^KNOWN-FINDING' .work/last_$id.log) known $(tail -1 .work/last_$id.log)"
done
