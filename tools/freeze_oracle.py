#!/usr/bin/env python3
"""Freeze the O4 snapshots from /repo's tree (run once on the pinned tree; committed).
The snapshot is a TRUSTED BASELINE standing in for the absent Khronos JSON grammar."""
import json
import os
import sys
ROOT = os.path.abspath(os.path.join(os.path.dirname(__file__), ".."))
sys.path.insert(0, ROOT)
sys.path.insert(0, os.path.join(ROOT, "tools"))
from units import spirv_enums, tables, kani_masks, lift_caps  # noqa: E402
os.makedirs(os.path.join(ROOT, "oracle"), exist_ok=True)
with open(os.path.join(ROOT, "oracle", "enum_snapshot.json"), "w") as f:
    json.dump(spirv_enums.snapshot_now(), f, indent=0, sort_keys=True)
with open(os.path.join(ROOT, "oracle", "grammar_snapshot.json"), "w") as f:
    json.dump(tables.snapshot_now(), f, indent=0, sort_keys=True)
with open(os.path.join(ROOT, "oracle", "mask_snapshot.json"), "w") as f:
    json.dump(kani_masks.snapshot_now(), f, indent=0, sort_keys=True)
with open(os.path.join(ROOT, "oracle", "reflect_caps_snapshot.json"), "w") as f:
    json.dump(lift_caps.snapshot_now(), f, indent=0, sort_keys=True)
from units.lift_reflect import lift as _lift  # noqa: E402
_e, _m = _lift()
with open(os.path.join(ROOT, "oracle", "reflect_params_snapshot.json"), "w") as f:
    json.dump({"enums": {K: {e: [list(x) for x in ops] for e, ops in t.items()} for K, t in _e.items()},
               "masks": {K: [[list(fl), [list(x) for x in ops]] for fl, ops in gs] for K, gs in _m.items()}}, f, indent=0, sort_keys=True)
print("frozen")
