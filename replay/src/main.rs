//! vreplay — runs concrete inputs against the real rspirv/spirv crates.
use rspirv::grammar::reflect;
use std::env;

fn all_ops() -> Vec<spirv::Op> {
    (0u32..=0xFFFF).filter_map(spirv::Op::from_u32).collect()
}

/// One line per declared opcode: number, name, then the 13 predicate values.
fn reflect_dump() {
    for op in all_ops() {
        let p: [(&str, bool); 13] = [
            ("is_location_debug", reflect::is_location_debug(op)),
            ("is_nonlocation_debug", reflect::is_nonlocation_debug(op)),
            ("is_debug", reflect::is_debug(op)),
            ("is_annotation", reflect::is_annotation(op)),
            ("is_type", reflect::is_type(op)),
            ("is_constant", reflect::is_constant(op)),
            ("is_variable", reflect::is_variable(op)),
            ("is_return", reflect::is_return(op)),
            ("is_abort", reflect::is_abort(op)),
            ("is_return_or_abort", reflect::is_return_or_abort(op)),
            ("is_branch", reflect::is_branch(op)),
            ("is_block_terminator", reflect::is_block_terminator(op)),
            ("_", false),
        ];
        let vals: Vec<String> = p.iter().filter(|x| x.0 != "_").map(|x| format!("{}={}", x.0, x.1 as u8)).collect();
        println!("{} {:?} {}", op as u32, op, vals.join(" "));
    }
}

fn parse_words(args: &[String]) -> Vec<u32> {
    args.iter()
        .map(|a| {
            let a = a.trim_start_matches("0x");
            u32::from_str_radix(a, 16).expect("hex word")
        })
        .collect()
}

/// load_words on the given hex words; prints Ok + section sizes + disassembly, or Err + message.
/// A panic is reported as PANIC (exit 101 from the runtime).
fn load_words_cmd(args: &[String]) {
    let words = parse_words(args);
    match rspirv::dr::load_words(&words) {
        Ok(m) => {
            use rspirv::binary::{Assemble, Disassemble};
            println!("Ok");
            println!("sections caps={} exts={} imports={} mm={} eps={} modes={} dbgsrc={} dbgnames={} dbgmp={} annots={} tgv={} fns={}",
                m.capabilities.len(), m.extensions.len(), m.ext_inst_imports.len(), m.memory_model.is_some() as u8,
                m.entry_points.len(), m.execution_modes.len(), m.debug_string_source.len(), m.debug_names.len(),
                m.debug_module_processed.len(), m.annotations.len(), m.types_global_values.len(), m.functions.len());
            let re: Vec<String> = m.assemble().iter().map(|w| format!("{:08x}", w)).collect();
            println!("assembled {}", re.join(" "));
            println!("{}", m.disassemble());
        }
        Err(e) => println!("Err {:?} :: {}", e, e),
    }
}

fn scan(f: &dyn Fn(u32) -> Option<u32>, extra: &[u32]) {
    let mut ns: Vec<u32> = (0u32..=70000).collect();
    for &e in extra {
        for d in 0..=4u32 {
            ns.push(e.wrapping_add(d).wrapping_sub(2));
        }
    }
    ns.extend_from_slice(&[0x7ffffffd, 0x7ffffffe, 0x7fffffff, 0x80000000, 0x80000001, 0xfffffffe, 0xffffffff]);
    for n in ns {
        match f(n) {
            Some(v) => println!("{} {}", n, v),
            None => println!("{} None", n),
        }
    }
}

/// enum-scan <Enum> [extra n ...]: real from_u32 on 0..=70000, around every extra n, and the top values.
fn enum_scan(args: &[String]) {
    let extra: Vec<u32> = args[1..].iter().map(|a| a.parse().unwrap()).collect();
    let extra = &extra[..];
    match args[0].as_str() {
        "SourceLanguage" => scan(&|n| spirv::SourceLanguage::from_u32(n).map(|v| v as u32), extra),
        "ExecutionModel" => scan(&|n| spirv::ExecutionModel::from_u32(n).map(|v| v as u32), extra),
        "AddressingModel" => scan(&|n| spirv::AddressingModel::from_u32(n).map(|v| v as u32), extra),
        "MemoryModel" => scan(&|n| spirv::MemoryModel::from_u32(n).map(|v| v as u32), extra),
        "ExecutionMode" => scan(&|n| spirv::ExecutionMode::from_u32(n).map(|v| v as u32), extra),
        "StorageClass" => scan(&|n| spirv::StorageClass::from_u32(n).map(|v| v as u32), extra),
        "Dim" => scan(&|n| spirv::Dim::from_u32(n).map(|v| v as u32), extra),
        "SamplerAddressingMode" => scan(&|n| spirv::SamplerAddressingMode::from_u32(n).map(|v| v as u32), extra),
        "SamplerFilterMode" => scan(&|n| spirv::SamplerFilterMode::from_u32(n).map(|v| v as u32), extra),
        "ImageFormat" => scan(&|n| spirv::ImageFormat::from_u32(n).map(|v| v as u32), extra),
        "ImageChannelOrder" => scan(&|n| spirv::ImageChannelOrder::from_u32(n).map(|v| v as u32), extra),
        "ImageChannelDataType" => scan(&|n| spirv::ImageChannelDataType::from_u32(n).map(|v| v as u32), extra),
        "FPRoundingMode" => scan(&|n| spirv::FPRoundingMode::from_u32(n).map(|v| v as u32), extra),
        "FPDenormMode" => scan(&|n| spirv::FPDenormMode::from_u32(n).map(|v| v as u32), extra),
        "QuantizationModes" => scan(&|n| spirv::QuantizationModes::from_u32(n).map(|v| v as u32), extra),
        "FPOperationMode" => scan(&|n| spirv::FPOperationMode::from_u32(n).map(|v| v as u32), extra),
        "OverflowModes" => scan(&|n| spirv::OverflowModes::from_u32(n).map(|v| v as u32), extra),
        "LinkageType" => scan(&|n| spirv::LinkageType::from_u32(n).map(|v| v as u32), extra),
        "AccessQualifier" => scan(&|n| spirv::AccessQualifier::from_u32(n).map(|v| v as u32), extra),
        "HostAccessQualifier" => scan(&|n| spirv::HostAccessQualifier::from_u32(n).map(|v| v as u32), extra),
        "FunctionParameterAttribute" => scan(&|n| spirv::FunctionParameterAttribute::from_u32(n).map(|v| v as u32), extra),
        "Decoration" => scan(&|n| spirv::Decoration::from_u32(n).map(|v| v as u32), extra),
        "BuiltIn" => scan(&|n| spirv::BuiltIn::from_u32(n).map(|v| v as u32), extra),
        "Scope" => scan(&|n| spirv::Scope::from_u32(n).map(|v| v as u32), extra),
        "GroupOperation" => scan(&|n| spirv::GroupOperation::from_u32(n).map(|v| v as u32), extra),
        "KernelEnqueueFlags" => scan(&|n| spirv::KernelEnqueueFlags::from_u32(n).map(|v| v as u32), extra),
        "Capability" => scan(&|n| spirv::Capability::from_u32(n).map(|v| v as u32), extra),
        "RayQueryIntersection" => scan(&|n| spirv::RayQueryIntersection::from_u32(n).map(|v| v as u32), extra),
        "RayQueryCommittedIntersectionType" => scan(&|n| spirv::RayQueryCommittedIntersectionType::from_u32(n).map(|v| v as u32), extra),
        "RayQueryCandidateIntersectionType" => scan(&|n| spirv::RayQueryCandidateIntersectionType::from_u32(n).map(|v| v as u32), extra),
        "PackedVectorFormat" => scan(&|n| spirv::PackedVectorFormat::from_u32(n).map(|v| v as u32), extra),
        "CooperativeMatrixLayout" => scan(&|n| spirv::CooperativeMatrixLayout::from_u32(n).map(|v| v as u32), extra),
        "CooperativeMatrixUse" => scan(&|n| spirv::CooperativeMatrixUse::from_u32(n).map(|v| v as u32), extra),
        "TensorClampMode" => scan(&|n| spirv::TensorClampMode::from_u32(n).map(|v| v as u32), extra),
        "InitializationModeQualifier" => scan(&|n| spirv::InitializationModeQualifier::from_u32(n).map(|v| v as u32), extra),
        "LoadCacheControl" => scan(&|n| spirv::LoadCacheControl::from_u32(n).map(|v| v as u32), extra),
        "StoreCacheControl" => scan(&|n| spirv::StoreCacheControl::from_u32(n).map(|v| v as u32), extra),
        "NamedMaximumNumberOfRegisters" => scan(&|n| spirv::NamedMaximumNumberOfRegisters::from_u32(n).map(|v| v as u32), extra),
        "FPEncoding" => scan(&|n| spirv::FPEncoding::from_u32(n).map(|v| v as u32), extra),
        "CooperativeVectorMatrixLayout" => scan(&|n| spirv::CooperativeVectorMatrixLayout::from_u32(n).map(|v| v as u32), extra),
        "ComponentType" => scan(&|n| spirv::ComponentType::from_u32(n).map(|v| v as u32), extra),
        "Op" => scan(&|n| spirv::Op::from_u32(n).map(|v| v as u32), extra),
        "GLOp" => scan(&|n| spirv::GLOp::from_u32(n).map(|v| v as u32), extra),
        "CLOp" => scan(&|n| spirv::CLOp::from_u32(n).map(|v| v as u32), extra),
        "DebugPrintFOp" => scan(&|n| spirv::DebugPrintFOp::from_u32(n).map(|v| v as u32), extra),
        other => {
            eprintln!("unknown enum {}", other);
            std::process::exit(64);
        }
    }
}

fn parse_hex_bytes(arg: &str) -> Vec<u8> {
    let a: Vec<char> = arg.chars().filter(|c| !c.is_whitespace()).collect();
    a.chunks(2).map(|p| u8::from_str_radix(&p.iter().collect::<String>(), 16).expect("hex byte")).collect()
}

/// load-bytes <hex>: load_bytes on arbitrary bytes; a panic is caught and reported as PANIC.
fn load_bytes_cmd(args: &[String]) {
    let bytes = parse_hex_bytes(&args[0]);
    let r = std::panic::catch_unwind(|| rspirv::dr::load_bytes(&bytes));
    match r {
        Ok(Ok(m)) => {
            use rspirv::binary::{Assemble, Disassemble};
            println!("Ok");
            let r2 = std::panic::catch_unwind(|| (m.assemble(), m.disassemble()));
            match r2 {
                Ok((a, d)) => println!("assembled {} words; disassembly {} bytes", a.len(), d.len()),
                Err(_) => println!("PANIC in assemble/disassemble"),
            }
        }
        Ok(Err(e)) => println!("Err {:?}", e),
        Err(_) => println!("PANIC in load_bytes"),
    }
}

/// decoder-script <hex bytes> <ops...>: ops are  w | ws:<n> | b64 | s | lim:<n> | clr | <typed request name>
/// prints after each op: result, offset. A panic is reported as PANIC.
fn decoder_script(args: &[String]) {
    let bytes = parse_hex_bytes(&args[0]);
    let ops: Vec<String> = args[1..].to_vec();
    let r = std::panic::catch_unwind(move || {
        let mut d = rspirv::binary::Decoder::new(&bytes);
        for op in ops {
            let out = if op == "w" {
                format!("{:?}", d.word())
            } else if let Some(n) = op.strip_prefix("ws:") {
                format!("{:?}", d.words(n.parse().unwrap()))
            } else if op == "b64" {
                format!("{:?}", d.bit64())
            } else if op == "s" {
                format!("{:?}", d.string())
            } else if let Some(n) = op.strip_prefix("lim:") {
                d.set_limit(n.parse().unwrap());
                "()".to_string()
            } else if op == "clr" {
                d.clear_limit();
                "()".to_string()
            } else if op == "source_language" {
                format!("{:?}", d.source_language())
            } else if op == "image_operands" {
                format!("{:?}", d.image_operands())
            } else {
                "?".to_string()
            };
            println!("{} -> {} offset={} limit_reached={}", op, out, d.offset(), d.limit_reached());
        }
    });
    if r.is_err() {
        println!("PANIC");
    }
}

/// storage-script <ops...>: a:<f32> (append) | f:<f32> (fetch_or_append); values may be NaN.
/// prints per op the returned token index, then all stored values.
fn storage_script(args: &[String]) {
    let mut st: rspirv::sr::storage::Storage<f32> = rspirv::sr::storage::Storage::new();
    let mut toks = vec![];
    for op in args {
        let v: f32 = op[2..].parse().expect("f32");
        let t = if op.starts_with("a:") { st.append(v) } else { st.fetch_or_append(v) };
        println!("{} -> {}", op, t.index());
        toks.push(t);
    }
    let vals: Vec<String> = toks.iter().map(|t| format!("{:?}", st[*t])).collect();
    println!("lookups {}", vals.join(" "));
}

/// table-dump <core|glsl|opencl>: every row of the real table as  <num> <name> kinds=K:Q,.. caps=.. exts=..
fn table_dump(which: &str) {
    use rspirv::grammar::*;
    fn ops(o: &[LogicalOperand]) -> String {
        o.iter().map(|l| format!("{:?}:{:?}", l.kind, l.quantifier)).collect::<Vec<_>>().join(",")
    }
    match which {
        "core" => {
            for r in CoreInstructionTable::iter() {
                let caps: Vec<String> = r.capabilities.iter().map(|c| format!("{:?}", c)).collect();
                println!("{} {} kinds={} caps={} exts={}", r.opcode as u32, r.opname, ops(r.operands), caps.join(","), r.extensions.join(","));
            }
        }
        "glsl" => {
            for r in GlslStd450InstructionTable::iter() {
                let caps: Vec<String> = r.capabilities.iter().map(|c| format!("{:?}", c)).collect();
                println!("{} {} kinds={} caps={} exts={}", r.opcode, r.opname, ops(r.operands), caps.join(","), r.extensions.join(","));
            }
        }
        _ => {
            for r in OpenCLStd100InstructionTable::iter() {
                let caps: Vec<String> = r.capabilities.iter().map(|c| format!("{:?}", c)).collect();
                println!("{} {} kinds={} caps={} exts={}", r.opcode, r.opname, ops(r.operands), caps.join(","), r.extensions.join(","));
            }
        }
    }
}

/// lookup-scan <core|glsl|opencl>: lookup_opcode(n) for n in 0..=70000 (core: all u16) and get() for every enum value
fn lookup_scan(which: &str) {
    use rspirv::grammar::*;
    match which {
        "core" => {
            for n in 0u32..=0xFFFF {
                if let Some(r) = CoreInstructionTable::lookup_opcode(n as u16) {
                    println!("lookup {} {} {}", n, r.opcode as u32, r.opname);
                }
            }
            for n in 0u32..=0xFFFF {
                if let Some(op) = spirv::Op::from_u32(n) {
                    let r = std::panic::catch_unwind(|| CoreInstructionTable::get(op).opcode as u32);
                    println!("get {} {}", n, r.map(|v| v.to_string()).unwrap_or("PANIC".into()));
                }
            }
        }
        "glsl" => {
            for n in 0u32..=70000 {
                if let Some(r) = GlslStd450InstructionTable::lookup_opcode(n) {
                    println!("lookup {} {} {}", n, r.opcode, r.opname);
                }
                if let Some(op) = spirv::GLOp::from_u32(n) {
                    let r = std::panic::catch_unwind(|| GlslStd450InstructionTable::get(op).opcode);
                    println!("get {} {}", n, r.map(|v| v.to_string()).unwrap_or("PANIC".into()));
                }
            }
        }
        _ => {
            for n in 0u32..=70000 {
                if let Some(r) = OpenCLStd100InstructionTable::lookup_opcode(n) {
                    println!("lookup {} {} {}", n, r.opcode, r.opname);
                }
                if let Some(op) = spirv::CLOp::from_u32(n) {
                    let r = std::panic::catch_unwind(|| OpenCLStd100InstructionTable::get(op).opcode);
                    println!("get {} {}", n, r.map(|v| v.to_string()).unwrap_or("PANIC".into()));
                }
            }
        }
    }
}

/// load-batch: stdin lines of hex words (instructions only; a header is prepended); per line prints
/// `Ok <11 section sizes> fns=<per function: params/blocks/[insts per block]>` or `Err <Debug of the error>`; PANIC on panic.
fn load_batch() {
    use std::io::BufRead;
    let stdin = std::io::stdin();
    for line in stdin.lock().lines() {
        let line = line.unwrap();
        let mut words = vec![0x07230203u32, 0x00010000, 0, 100, 0];
        words.extend(line.split_whitespace().map(|a| u32::from_str_radix(a.trim_start_matches("0x"), 16).unwrap()));
        let r = std::panic::catch_unwind(|| rspirv::dr::load_words(&words));
        match r {
            Ok(Ok(m)) => {
                let fns: Vec<String> = m.functions.iter().map(|f| format!("{}{}p{}b[{}]", f.def.is_some() as u8, f.end.is_some() as u8,
                    f.parameters.len(), f.blocks.iter().map(|b| format!("{}:{}", b.label.is_some() as u8, b.instructions.len())).collect::<Vec<_>>().join(","))).collect();
                println!("Ok {} {} {} {} {} {} {} {} {} {} {} fns={}", m.capabilities.len(), m.extensions.len(), m.ext_inst_imports.len(),
                    m.memory_model.is_some() as u8, m.entry_points.len(), m.execution_modes.len(), m.debug_string_source.len(),
                    m.debug_names.len(), m.debug_module_processed.len(), m.annotations.len(), m.types_global_values.len(), fns.join(";"));
            }
            Ok(Err(e)) => {
                let d = format!("{:?}", e);
                let short: String = d.chars().take(60).collect();
                println!("Err {}", short.replace(' ', "_"));
            }
            Err(_) => println!("PANIC"),
        }
    }
}

/// builder-script <ops...> on a real dr::Builder. ops: bf | ef | bb | bbn (begin_block_no_label) | nop | ret | br | kill |
/// param | var | undef | line | noline | cap | tvoid | tint | tptr | c32 | sf:<i> | sf:none | sb:<i> | sb:none | pop | id |
/// ins:<begin|end|fb:N|fe:N> (insert nop at point) | lifetime
/// After each op prints: op -> result ; sel=<f>/<b> next_id-ish module shape. A panic prints PANIC.
fn builder_script(args: &[String]) {
    use rspirv::dr::{Builder, InsertPoint};
    let ops: Vec<String> = args.to_vec();
    let r = std::panic::catch_unwind(move || {
        let mut b = Builder::new();
        for op in ops {
            let res: String = match op.as_str() {
                "bf" => format!("{:?}", b.begin_function(1, None, spirv::FunctionControl::NONE, 2).map_err(|e| format!("{:?}", e))),
                "ef" => format!("{:?}", b.end_function().map_err(|e| format!("{:?}", e))),
                "bb" => format!("{:?}", b.begin_block(None).map_err(|e| format!("{:?}", e))),
                "bbn" => format!("{:?}", b.begin_block_no_label(None).map_err(|e| format!("{:?}", e))),
                "nop" => format!("{:?}", b.nop().map_err(|e| format!("{:?}", e))),
                "ret" => format!("{:?}", b.ret().map_err(|e| format!("{:?}", e))),
                "br" => format!("{:?}", b.branch(7).map_err(|e| format!("{:?}", e))),
                "kill" => format!("{:?}", b.kill().map_err(|e| format!("{:?}", e))),
                "mesh" => format!("{:?}", b.emit_mesh_tasks_ext(7, 7, 7, None).map_err(|e| format!("{:?}", e))),
                "terminv" => format!("{:?}", b.terminate_invocation().map_err(|e| format!("{:?}", e))),
                "unreach" => format!("{:?}", b.unreachable().map_err(|e| format!("{:?}", e))),
                "ignint" => format!("{:?}", b.ignore_intersection_khr().map_err(|e| format!("{:?}", e))),
                "termray" => format!("{:?}", b.terminate_ray_khr().map_err(|e| format!("{:?}", e))),
                "retval" => format!("{:?}", b.ret_value(7).map_err(|e| format!("{:?}", e))),
                "ins_mesh" => format!("{:?}", b.insert_emit_mesh_tasks_ext(InsertPoint::Begin, 7, 7, 7, None).map_err(|e| format!("{:?}", e))),
                "ins_terminv" => format!("{:?}", b.insert_terminate_invocation(InsertPoint::Begin).map_err(|e| format!("{:?}", e))),
                "lifetime" => format!("{:?}", b.lifetime_start(7, 4).map_err(|e| format!("{:?}", e))),
                "lifetime_stop" => format!("{:?}", b.lifetime_stop(7, 4).map_err(|e| format!("{:?}", e))),
                "demote" => format!("{:?}", b.demote_to_helper_invocation().map_err(|e| format!("{:?}", e))),
                "insert_lifetime" => format!("{:?}", b.insert_lifetime_start(InsertPoint::End, 7, 4).map_err(|e| format!("{:?}", e))),
                "insert_lifetime_stop" => format!("{:?}", b.insert_lifetime_stop(InsertPoint::End, 7, 4).map_err(|e| format!("{:?}", e))),
                "insert_demote" => format!("{:?}", b.insert_demote_to_helper_invocation(InsertPoint::End).map_err(|e| format!("{:?}", e))),
                "assemble_load" => {
                    use rspirv::binary::Assemble;
                    let m = b.module_ref().clone();
                    let mut m2 = m.clone();
                    if m2.header.is_none() { m2.header = Some(rspirv::dr::ModuleHeader::new(100)); }
                    format!("{:?}", rspirv::dr::load_words(m2.assemble()).map(|_| "loaded").map_err(|e| format!("{:?}", e).chars().take(60).collect::<String>()))
                }
                "param" => format!("{:?}", b.function_parameter(1).map_err(|e| format!("{:?}", e))),
                "var" => format!("{}", b.variable(1, None, spirv::StorageClass::Function, None)),
                "undef" => format!("{}", b.undef(1, None)),
                "line" => { b.line(1, 2, 3); "()".into() }
                "noline" => { b.no_line(); "()".into() }
                "cap" => { b.capability(spirv::Capability::Shader); "()".into() }
                "tvoid" => format!("{}", b.type_void()),
                "tint" => format!("{}", b.type_int(32, 0)),
                "tptr" => format!("{}", b.type_pointer(None, spirv::StorageClass::Function, 1)),
                "c32" => format!("{}", b.constant_bit32(1, 5)),
                "pop" => format!("{:?}", b.pop_instruction().map(|i| i.class.opname).map_err(|e| format!("{:?}", e))),
                "id" => format!("{}", b.id()),
                "ver" => { b.set_version(1, 3); "()".into() }
                "sf:none" => format!("{:?}", b.select_function(None).map_err(|e| format!("{:?}", e))),
                "sb:none" => format!("{:?}", b.select_block(None).map_err(|e| format!("{:?}", e))),
                o if o.starts_with("sf:") => format!("{:?}", b.select_function(Some(o[3..].parse().unwrap())).map_err(|e| format!("{:?}", e))),
                o if o.starts_with("sb:") => format!("{:?}", b.select_block(Some(o[3..].parse().unwrap())).map_err(|e| format!("{:?}", e))),
                o if o.starts_with("ins:") => {
                    let pt = match &o[4..] {
                        "begin" => InsertPoint::Begin,
                        "end" => InsertPoint::End,
                        x if x.starts_with("fb:") => InsertPoint::FromBegin(x[3..].parse().unwrap()),
                        x => InsertPoint::FromEnd(x[3..].parse().unwrap()),
                    };
                    format!("{:?}", b.insert_nop(pt).map_err(|e| format!("{:?}", e)))
                }
                _ => "?".into(),
            };
            let m = b.module_ref();
            let shape: Vec<String> = m.functions.iter().map(|f| format!("{}{}p{}[{}]", f.def.is_some() as u8, f.end.is_some() as u8, f.parameters.len(),
                f.blocks.iter().map(|bl| format!("{}:{}", bl.label.is_some() as u8, bl.instructions.len())).collect::<Vec<_>>().join(","))).collect();
            println!("{} -> {} ; sel={:?}/{:?} tgv={} caps={} fns={}", op, res.replace(' ', ""), b.selected_function(), b.selected_block(),
                m.types_global_values.len(), m.capabilities.len(), shape.join(";"));
        }
        let m = b.module();
        println!("bound={}", m.header.as_ref().unwrap().bound);
    });
    if r.is_err() {
        println!("PANIC");
    }
}

/// consumer-script <hex bytes> <k> <cont|stop|error>: parse_bytes with a consumer that logs every callback and answers
/// Continue except at callback number k (0-based). Prints the log, one callback per line, then `result <Debug>`.
fn consumer_script(args: &[String]) {
    use rspirv::binary::{Consumer, ParseAction};
    #[derive(Debug)]
    struct MyErr(u32);
    impl std::fmt::Display for MyErr { fn fmt(&self, f: &mut std::fmt::Formatter) -> std::fmt::Result { write!(f, "MyErr{}", self.0) } }
    impl std::error::Error for MyErr {}
    struct C { n: usize, k: usize, ans: String }
    impl C {
        fn answer(&mut self, what: String) -> ParseAction {
            let me = self.n;
            self.n += 1;
            let a = if me == self.k { self.ans.clone() } else { "cont".to_string() };
            println!("cb {} {} {}", me, what, a);
            match a.as_str() {
                "stop" => ParseAction::Stop,
                "error" => ParseAction::Error(Box::new(MyErr(me as u32))),
                // the consumer's own error value may be of ANY type, including the parser's own state type
                "error_state_stop" => ParseAction::Error(Box::new(rspirv::binary::ParseState::ConsumerStopRequested)),
                "error_state_complete" => ParseAction::Error(Box::new(rspirv::binary::ParseState::Complete)),
                _ => ParseAction::Continue,
            }
        }
    }
    impl Consumer for C {
        fn initialize(&mut self) -> ParseAction { self.answer("init".into()) }
        fn finalize(&mut self) -> ParseAction { self.answer("finalize".into()) }
        fn consume_header(&mut self, _h: rspirv::dr::ModuleHeader) -> ParseAction { self.answer("header".into()) }
        fn consume_instruction(&mut self, i: rspirv::dr::Instruction) -> ParseAction { self.answer(format!("inst:{}", i.class.opname)) }
    }
    let bytes = parse_hex_bytes(&args[0]);
    let mut c = C { n: 0, k: args[1].parse().unwrap(), ans: args[2].clone() };
    let r = rspirv::binary::parse_bytes(&bytes, &mut c);
    println!("result {}", format!("{:?}", r).replace(' ', ""));
}

/// parse-batch: stdin lines of hex BYTES. Per line: `Ok <n instructions> rt=<1|0>` (rt: assembling the loaded module and
/// loading again gives an equal assembly; and the first assembly has the input's instruction words when the input was in
/// layout order) | `Err <Debug>` | `PANIC <where>`.
fn parse_batch() {
    use rspirv::binary::Assemble;
    use std::io::BufRead;
    std::panic::set_hook(Box::new(|_| {}));
    for line in std::io::stdin().lock().lines() {
        let bytes = parse_hex_bytes(&line.unwrap());
        let r = std::panic::catch_unwind(|| rspirv::dr::load_bytes(&bytes));
        match r {
            Ok(Ok(m)) => {
                let r2 = std::panic::catch_unwind(|| {
                    let a = m.assemble();
                    let d = {
                        use rspirv::binary::Disassemble;
                        m.disassemble().len()
                    };
                    (a, d)
                });
                match r2 {
                    Ok((a, _)) => {
                        let m2 = rspirv::dr::load_words(&a);
                        let same = match m2 { Ok(m2) => m2.assemble() == a, Err(_) => false };
                        let words: Vec<String> = a.iter().skip(5).map(|w| format!("{:x}", w)).collect();
                        // C01: same instruction words as the input (as multisets of instructions)
                        let split = |ws: &[u32]| -> Vec<Vec<u32>> { let mut out = vec![]; let mut i = 0; while i < ws.len() { let wc = (ws[i] >> 16) as usize; if wc == 0 || i + wc > ws.len() { break; } out.push(ws[i..i + wc].to_vec()); i += wc; } out.sort(); out };
                        let inw: Vec<u32> = bytes[20.min(bytes.len())..].chunks_exact(4).map(|c| u32::from_le_bytes([c[0], c[1], c[2], c[3]])).collect();
                        let same_insts = split(&inw) == split(&a[5.min(a.len())..]);
                        // C01: the header carries the input's version word and id bound
                        let inh: Vec<u32> = bytes[..20.min(bytes.len())].chunks_exact(4).map(|c| u32::from_le_bytes([c[0], c[1], c[2], c[3]])).collect();
                        let hdr = inh.len() == 5 && a.len() >= 5 && a[0] == inh[0] && a[1] == inh[1] && a[3] == inh[3];
                        // C01: relative order preserved: for every opcode (except OpLine / OpNoLine / OpMemoryModel, which the statement
                        // exempts) the instructions with that opcode appear in the same order in the input and in the output
                        let seq = |ws: &[u32]| -> Vec<Vec<u32>> { let mut out = vec![]; let mut i = 0; while i < ws.len() { let wc = (ws[i] >> 16) as usize; if wc == 0 || i + wc > ws.len() { break; } out.push(ws[i..i + wc].to_vec()); i += wc; } out };
                        let (si, so) = (seq(&inw), seq(&a[5.min(a.len())..]));
                        let mut ord = true;
                        for opc in si.iter().map(|w| w[0] & 0xffff).collect::<std::collections::BTreeSet<u32>>() {
                            if opc == 8 || opc == 317 || opc == 14 { continue; }
                            let fi: Vec<&Vec<u32>> = si.iter().filter(|w| w[0] & 0xffff == opc).collect();
                            let fo: Vec<&Vec<u32>> = so.iter().filter(|w| w[0] & 0xffff == opc).collect();
                            if fi != fo { ord = false; }
                        }
                        println!("Ok {} rt={} same={} hdr={} ord={} words={}", m.all_inst_iter().count(), same as u8, same_insts as u8, hdr as u8, ord as u8, words.join(","));
                    }
                    Err(_) => println!("PANIC assemble/disassemble"),
                }
            }
            Ok(Err(e)) => println!("Err {}", format!("{:?}", e).replace(' ', "").chars().take(120).collect::<String>()),
            Err(_) => println!("PANIC load_bytes"),
        }
    }
}

/// reflect-sweep: for EVERY enumerant of ExecutionMode/Decoration and EVERY combination of declared bits of the four
/// parameterised masks, compares `Operand::additional_operands()` with what the real parser consumes after that value
/// (same sequence for enumerants, same multiset for masks). Prints `checked <n>` per kind and a MISMATCH line per disagreement.
fn reflect_sweep() {
    use rspirv::dr::Operand;
    fn variant_of_kind(k: &str) -> String {
        match k { "LiteralInteger" | "LiteralFloat" => "LiteralBit32".to_string(), other => other.to_string() }
    }
    fn parsed_variants(words: &[u32], skip: usize) -> Result<Vec<String>, String> {
        let mut all = vec![0x07230203u32, 0x00010000, 0, 100, 0];
        all.extend_from_slice(words);
        struct C(Option<rspirv::dr::Instruction>);
        impl rspirv::binary::Consumer for C {
            fn initialize(&mut self) -> rspirv::binary::ParseAction { rspirv::binary::ParseAction::Continue }
            fn finalize(&mut self) -> rspirv::binary::ParseAction { rspirv::binary::ParseAction::Continue }
            fn consume_header(&mut self, _h: rspirv::dr::ModuleHeader) -> rspirv::binary::ParseAction { rspirv::binary::ParseAction::Continue }
            fn consume_instruction(&mut self, i: rspirv::dr::Instruction) -> rspirv::binary::ParseAction { self.0 = Some(i); rspirv::binary::ParseAction::Continue }
        }
        let mut c = C(None);
        match rspirv::binary::parse_words(&all, &mut c) {
            Ok(()) => Ok(c.0.unwrap().operands.iter().skip(skip).map(|o| { let d = format!("{:?}", o); d.split('(').next().unwrap().to_string() }).collect()),
            Err(e) => Err(format!("{:?}", e).replace(' ', "")),
        }
    }
    // (carrier opcode, words before the value, operands before the value's parameters)
    fn check(name: &str, value: u32, op: Operand, opcode: u32, prefix: &[u32], skip: usize, as_multiset: bool) -> bool {
        let logical = op.additional_operands();
        let refl: Vec<String> = logical.iter().map(|l| variant_of_kind(&format!("{:?}", l.kind))).collect();
        let quants: Vec<String> = logical.iter().map(|l| format!("{:?}", l.quantifier)).collect();
        // every repetition count an optional / variadic parameter allows (only the last parameter may be one)
        let counts: Vec<usize> = match quants.last().map(|q| q.as_str()) {
            Some("ZeroOrOne") => vec![0, 1],
            Some("ZeroOrMore") => vec![0, 1, 2, 3],
            _ => vec![1],
        };
        if quants.iter().rev().skip(1).any(|q| q != "One") {
            println!("MISMATCH {} value={} reflection reports a non-final optional/variadic parameter: {:?}", name, value, quants);
            return false;
        }
        let mut all_ok = true;
        for c in counts {
            let mut expect: Vec<String> = refl.clone();
            if let Some(last) = expect.pop() { for _ in 0..c { expect.push(last.clone()); } }
            let mut words = vec![0u32];
            words.extend_from_slice(prefix);
            words.push(value);
            words.extend(std::iter::repeat(0u32).take(expect.len()));
            words[0] = ((words.len() as u32) << 16) | opcode;
            let parsed = parsed_variants(&words, skip);
            let ok = match &parsed {
                Ok(p) => {
                    if as_multiset { let mut a = p.clone(); a.sort(); let mut b = expect.clone(); b.sort(); a == b } else { *p == expect }
                }
                Err(_) => false,
            };
            if !ok {
                println!("MISMATCH {} value={} reflection={:?} quantifiers={:?} repetitions={} parser={:?}", name, value, refl, quants, c, parsed);
                all_ok = false;
            }
        }
        all_ok
    }
    let mut n = 0;
    for v in 0u32..=70000 {
        if let Some(m) = spirv::ExecutionMode::from_u32(v) { n += 1; check("ExecutionMode", v, Operand::ExecutionMode(m), 16, &[1], 2, false); }
    }
    println!("checked ExecutionMode {}", n);
    n = 0;
    for v in 0u32..=70000 {
        if let Some(m) = spirv::Decoration::from_u32(v) { n += 1; check("Decoration", v, Operand::Decoration(m), 71, &[1], 2, false); }
    }
    println!("checked Decoration {}", n);
    fn submasks(all: u32) -> Vec<u32> { let mut out = vec![]; let mut s = all; loop { out.push(s); if s == 0 { break; } s = (s - 1) & all; } out }
    n = 0;
    for b in submasks(spirv::ImageOperands::all().bits()) { n += 1; check("ImageOperands", b, Operand::ImageOperands(spirv::ImageOperands::from_bits(b).unwrap()), 87, &[1, 2, 3, 4], 3, true); }
    println!("checked ImageOperands {}", n);
    n = 0;
    for b in submasks(spirv::LoopControl::all().bits()) { n += 1; check("LoopControl", b, Operand::LoopControl(spirv::LoopControl::from_bits(b).unwrap()), 246, &[1, 2], 3, true); }
    println!("checked LoopControl {}", n);
    n = 0;
    for b in submasks(spirv::MemoryAccess::all().bits()) { n += 1; check("MemoryAccess", b, Operand::MemoryAccess(spirv::MemoryAccess::from_bits(b).unwrap()), 61, &[1, 2, 3], 2, true); }
    println!("checked MemoryAccess {}", n);
    n = 0;
    for b in submasks(spirv::TensorAddressingOperands::all().bits()) { n += 1; check("TensorAddressingOperands", b, Operand::TensorAddressingOperands(spirv::TensorAddressingOperands::from_bits(b).unwrap()), 5367, &[1, 2, 3, 4, 5, 0], 5, true); }
    println!("checked TensorAddressingOperands {}", n);
}

/// traversal-sweep: BOUNDED exhaustive enumeration of dr::Module shapes on the real crate (C15).
/// Sweep A: header/memory-model present or absent x every one of the 10 vector sections with 0,1,2 instructions
///          (x 3 function shapes); Sweep B: 0..2 functions, each with def/end present or absent, 0..2 parameters,
///          0..2 blocks with label present or absent and 0..2 instructions (x 3 global shapes).
/// Instructions are tagged 1,2,3.. in layout order; checks all six traversals and Module::assemble().
fn traversal_sweep() {
    use rspirv::binary::Assemble;
    use rspirv::dr::{Block, Function, Instruction, Module, ModuleHeader};
    fn inst(tag: &mut u32) -> Instruction { *tag += 1; Instruction::new(spirv::Op::Nop, None, Some(*tag), vec![]) }
    fn sec(n: usize, tag: &mut u32) -> Vec<Instruction> { (0..n).map(|_| inst(tag)).collect() }
    fn opt(p: bool, tag: &mut u32) -> Option<Instruction> { if p { Some(inst(tag)) } else { None } }
    // function shape: (def, end, params, [(label, insts); nb])
    type FShape = (bool, bool, usize, Vec<(bool, usize)>);
    fn fshapes() -> Vec<FShape> {
        let mut blocks: Vec<Vec<(bool, usize)>> = vec![vec![]];
        let one: Vec<(bool, usize)> = [false, true].iter().flat_map(|&l| (0..3).map(move |n| (l, n))).collect();
        for a in &one { blocks.push(vec![*a]); }
        for a in &one { for b in &one { blocks.push(vec![*a, *b]); } }
        let mut out = vec![];
        for &d in &[false, true] { for &e in &[false, true] { for p in 0..3 { for b in &blocks { out.push((d, e, p, b.clone())); } } } }
        out
    }
    fn build(header: bool, mm: bool, secs: &[usize; 10], fns: &[&FShape]) -> (Module, u32, Vec<(u32, u32)>) {
        let mut tag = 0u32;
        let mut m = Module::new();
        if header { m.header = Some(ModuleHeader::new(77)); }
        m.capabilities = sec(secs[0], &mut tag);
        m.extensions = sec(secs[1], &mut tag);
        m.ext_inst_imports = sec(secs[2], &mut tag);
        m.memory_model = opt(mm, &mut tag);
        m.entry_points = sec(secs[3], &mut tag);
        m.execution_modes = sec(secs[4], &mut tag);
        m.debug_string_source = sec(secs[5], &mut tag);
        m.debug_names = sec(secs[6], &mut tag);
        m.debug_module_processed = sec(secs[7], &mut tag);
        m.annotations = sec(secs[8], &mut tag);
        m.types_global_values = sec(secs[9], &mut tag);
        let globals = tag;
        let mut ranges = vec![];
        for f in fns {
            let start = tag;
            let mut fun = Function::new();
            fun.def = opt(f.0, &mut tag);
            fun.parameters = sec(f.2, &mut tag);
            for (l, n) in &f.3 {
                let mut b = Block::new();
                b.label = opt(*l, &mut tag);
                b.instructions = sec(*n, &mut tag);
                fun.blocks.push(b);
            }
            fun.end = opt(f.1, &mut tag);
            ranges.push((start, tag));
            m.functions.push(fun);
        }
        (m, globals, ranges)
    }
    fn seq_ok<'a>(it: impl Iterator<Item = &'a Instruction>, lo: u32, hi: u32) -> bool {
        let mut next = lo;
        for i in it { next += 1; if i.result_id != Some(next) { return false; } }
        next == hi
    }
    fn seq_ok_mut<'a>(it: impl Iterator<Item = &'a mut Instruction>, lo: u32, hi: u32) -> bool {
        let mut next = lo;
        for i in it { next += 1; if i.result_id != Some(next) { return false; } }
        next == hi
    }
    fn check(mut m: Module, globals: u32, ranges: &[(u32, u32)]) -> Option<&'static str> {
        let total = ranges.last().map(|r| r.1).unwrap_or(globals);
        if !seq_ok(m.all_inst_iter(), 0, total) { return Some("all_inst_iter"); }
        if !seq_ok(m.global_inst_iter(), 0, globals) { return Some("global_inst_iter"); }
        if !seq_ok_mut(m.all_inst_iter_mut(), 0, total) { return Some("all_inst_iter_mut"); }
        if !seq_ok_mut(m.global_inst_iter_mut(), 0, globals) { return Some("global_inst_iter_mut"); }
        for (k, r) in ranges.iter().enumerate() {
            if !seq_ok(m.functions[k].all_inst_iter(), r.0, r.1) { return Some("Function::all_inst_iter"); }
            if !seq_ok_mut(m.functions[k].all_inst_iter_mut(), r.0, r.1) { return Some("Function::all_inst_iter_mut"); }
        }
        let words = m.assemble();
        let mut expect = vec![];
        if let Some(h) = &m.header { h.assemble_into(&mut expect); }
        for t in 1..=total { expect.push(2u32 << 16); expect.push(t); }
        if words != expect { return Some("Module::assemble"); }
        None
    }
    let shapes = fshapes();
    let probe_fns: Vec<Vec<&FShape>> = vec![vec![], vec![&shapes[shapes.len() - 1]], vec![&shapes[7], &shapes[shapes.len() - 1]]];
    let mut n = 0u64;
    let mut bad = 0u64;
    // sweep A
    for code in 0..(4 * 59049u32) {
        let header = code & 1 == 1;
        let mm = code & 2 == 2;
        let mut c = code / 4;
        let mut secs = [0usize; 10];
        for s in secs.iter_mut() { *s = (c % 3) as usize; c /= 3; }
        for fns in &probe_fns {
            let (m, g, r) = build(header, mm, &secs, fns);
            n += 1;
            if let Some(what) = check(m, g, &r) {
                bad += 1;
                if bad <= 5 { println!("MISMATCH {} header={} mm={} sections={:?} functions={:?}", what, header, mm, secs, fns); }
            }
        }
    }
    println!("checked A {}", n);
    // sweep B
    let probe_secs: [[usize; 10]; 3] = [[0; 10], [1; 10], [2, 0, 1, 0, 2, 1, 0, 2, 1, 2]];
    let mut nb = 0u64;
    for ps in &probe_secs {
        for &header in &[false, true] {
            let (m, g, r) = build(header, true, ps, &[]);
            nb += 1;
            if let Some(what) = check(m, g, &r) { bad += 1; if bad <= 5 { println!("MISMATCH {} sections={:?} no functions", what, ps); } }
            for f1 in &shapes {
                let (m, g, r) = build(header, false, ps, &[f1]);
                nb += 1;
                if let Some(what) = check(m, g, &r) { bad += 1; if bad <= 5 { println!("MISMATCH {} sections={:?} functions={:?}", what, ps, f1); } }
            }
        }
        for f1 in &shapes { for f2 in &shapes {
            let (m, g, r) = build(true, true, ps, &[f1, f2]);
            nb += 1;
            if let Some(what) = check(m, g, &r) { bad += 1; if bad <= 5 { println!("MISMATCH {} sections={:?} functions={:?} {:?}", what, ps, f1, f2); } }
        } }
    }
    println!("checked B {}", nb);
    println!("mismatches {}", bad);
}

// C13: every ordered pair of implicit type requests on a fresh builder: the same request twice returns the same id and adds
// nothing; different requests get different ids and one declaration each; an explicit-id request always appends.
fn dedup_sweep() {
    use rspirv::dr::Builder;
    type Req = (&'static str, fn(&mut Builder, u32, u32) -> u32);
    let reqs: Vec<Req> = vec![
        ("void", |b, _, _| b.type_void()),
        ("bool", |b, _, _| b.type_bool()),
        ("int32u", |b, _, _| b.type_int(32, 0)),
        ("int32s", |b, _, _| b.type_int(32, 1)),
        ("int64u", |b, _, _| b.type_int(64, 0)),
        ("float32", |b, _, _| b.type_float(32, None)),
        ("float64", |b, _, _| b.type_float(64, None)),
        ("vec2", |b, f, _| b.type_vector(f, 2)),
        ("vec3", |b, f, _| b.type_vector(f, 3)),
        ("vec2u", |b, _, u| b.type_vector(u, 2)),
        ("struct0", |b, _, _| b.type_struct(vec![])),
        ("struct_f", |b, f, _| b.type_struct(vec![f])),
        ("struct_fu", |b, f, u| b.type_struct(vec![f, u])),
        ("struct_uf", |b, f, u| b.type_struct(vec![u, f])),
        ("struct_fuf", |b, f, u| b.type_struct(vec![f, u, f])),
        ("fn_f", |b, f, _| b.type_function(f, vec![])),
        ("fn_f_f", |b, f, _| b.type_function(f, vec![f])),
        ("fn_f_fu", |b, f, u| b.type_function(f, vec![f, u])),
        ("fn_u", |b, _, u| b.type_function(u, vec![])),
        ("img", |b, f, _| b.type_image(f, spirv::Dim::Dim2D, 0, 0, 0, 1, spirv::ImageFormat::Unknown, None)),
        ("img_ro", |b, f, _| b.type_image(f, spirv::Dim::Dim2D, 0, 0, 0, 1, spirv::ImageFormat::Unknown, Some(spirv::AccessQualifier::ReadOnly))),
        ("img_wo", |b, f, _| b.type_image(f, spirv::Dim::Dim2D, 0, 0, 0, 1, spirv::ImageFormat::Unknown, Some(spirv::AccessQualifier::WriteOnly))),
        ("sampler", |b, _, _| b.type_sampler()),
        ("rtarr_f", |b, f, _| b.type_runtime_array(f)),
        ("rtarr_u", |b, _, u| b.type_runtime_array(u)),
        ("arr_f_u", |b, f, u| b.type_array(f, u)),
        ("ptr_fn_f", |b, f, _| b.type_pointer(None, spirv::StorageClass::Function, f)),
        ("ptr_priv_f", |b, f, _| b.type_pointer(None, spirv::StorageClass::Private, f)),
        ("ptr_fn_u", |b, _, u| b.type_pointer(None, spirv::StorageClass::Function, u)),
        ("pipe_ro", |b, _, _| b.type_pipe(spirv::AccessQualifier::ReadOnly)),
        ("pipe_wo", |b, _, _| b.type_pipe(spirv::AccessQualifier::WriteOnly)),
    ];
    let mut checked = 0u64;
    for (la, fa) in &reqs {
        for (lb, fb) in &reqs {
            let mut b = Builder::new();
            let f = b.type_float(32, None);
            let u = b.type_int(32, 0);
            let ida = fa(&mut b, f, u);
            let n1 = b.module_ref().types_global_values.len();
            let idb = fb(&mut b, f, u);
            let n2 = b.module_ref().types_global_values.len();
            let same = la == lb;
            // a request equal to one of the two base declarations is itself a repeat
            let b_is_base = *lb == "float32" || *lb == "int32u";
            if same && (idb != ida || n2 != n1) {
                println!("MISMATCH {} then {}: the repeated request returned id {} (first {}), declarations {} -> {}", la, lb, idb, ida, n1, n2);
            }
            if !same && idb == ida {
                println!("MISMATCH {} then {}: different requests share id {}", la, lb, ida);
            }
            if !same && !b_is_base && n2 != n1 + 1 {
                println!("MISMATCH {} then {}: a new type request changed the declarations {} -> {}", la, lb, n1, n2);
            }
            // no two identical declarations among implicitly requested types
            let tgv = &b.module_ref().types_global_values;
            for i in 0..tgv.len() { for j in 0..i {
                if tgv[i].class.opcode == tgv[j].class.opcode && tgv[i].operands == tgv[j].operands {
                    println!("MISMATCH {} then {}: duplicate declaration {:?}", la, lb, tgv[i].class.opcode);
                }
                if tgv[i].result_id == tgv[j].result_id { println!("MISMATCH {} then {}: two declarations share id {:?}", la, lb, tgv[i].result_id); }
            } }
            checked += 1;
        }
        // what else the module holds (annotations, names, constants) has no bearing on deduplication
        {
            let mut b = Builder::new();
            let f = b.type_float(32, None);
            let u = b.type_int(32, 0);
            let id1 = fa(&mut b, f, u);
            b.decorate(id1, spirv::Decoration::Block, vec![]);
            b.member_decorate(id1, 0, spirv::Decoration::Offset, vec![rspirv::dr::Operand::LiteralBit32(0)]);
            b.name(id1, "t");
            let _c = b.constant_bit32(u, 5);
            let n1 = b.module_ref().types_global_values.len();
            let id2 = fa(&mut b, f, u);
            let n2 = b.module_ref().types_global_values.len();
            if id2 != id1 || n2 != n1 { println!("MISMATCH {} requested again after being decorated / named: id {} (first {}), declarations {} -> {}", la, id2, id1, n1, n2); }
            let m = b.module();
            let mut b2 = Builder::new_from_module(m);
            let id3 = fa(&mut b2, f, u);
            if id3 != id1 { println!("MISMATCH {} requested again after new_from_module: id {} (first {})", la, id3, id1); }
        }
        // an identical declaration WITHOUT a result id earlier in the section does not hide the one with an id
        {
            let mut b = Builder::new();
            let f = b.type_float(32, None);
            let u = b.type_int(32, 0);
            let id1 = fa(&mut b, f, u);
            let mut twin = b.module_ref().types_global_values.iter().find(|i| i.result_id == Some(id1)).cloned();
            if let Some(mut t) = twin.take() {
                t.result_id = None;
                b.insert_types_global_values(rspirv::dr::InsertPoint::Begin, t);
                let n1 = b.module_ref().types_global_values.len();
                let id2 = fa(&mut b, f, u);
                let n2 = b.module_ref().types_global_values.len();
                if id2 != id1 || n2 != n1 { println!("MISMATCH {} requested again with an id-less identical declaration in front: id {} (first {}), declarations {} -> {}", la, id2, id1, n1, n2); }
            }
        }
        // the version set LAST on the builder is the module's version
        {
            let mut b = Builder::new();
            b.set_version(1, 0);
            let _ = b.type_void();
            b.set_version(1, 3);
            let m1 = b.module_ref().header.as_ref().map(|h| h.version());
            if m1 != Some((1, 3)) { println!("MISMATCH set_version(1,0) .. set_version(1,3): header version {:?}", m1); }
            b.set_version(1, 5);
            let m = b.module();
            if m.header.as_ref().map(|h| h.version()) != Some((1, 5)) { println!("MISMATCH third set_version(1,5): module version {:?}", m.header.as_ref().map(|h| h.version())); }
            let mut b2 = Builder::new_from_module(m);
            b2.set_version(1, 1);
            let m2 = b2.module();
            if m2.header.as_ref().map(|h| h.version()) != Some((1, 1)) { println!("MISMATCH set_version after new_from_module: {:?}", m2.header.as_ref().map(|h| h.version())); }
        }
        // continuation: ids reserved but never defined are below the bound; the continued builder starts AT the bound
        {
            let mut b = Builder::new();
            let f = b.type_float(32, None);
            let u = b.type_int(32, 0);
            let _ = fa(&mut b, f, u);
            let r1 = b.id();
            let r2 = b.id();
            let m = b.module();
            let bound = m.header.as_ref().unwrap().bound;
            let mut b2 = Builder::new_from_module(m);
            let n = b2.id();
            if bound != r2 + 1 || n != bound || n <= r1 { println!("MISMATCH continuation after {}: reserved ids {} {}, bound {}, first id of the continued builder {}", la, r1, r2, bound, n); }
        }
        // explicit id: always appends, carries the id
        let mut b = Builder::new();
        let f = b.type_float(32, None);
        let u = b.type_int(32, 0);
        let _ = fa(&mut b, f, u);
        let n1 = b.module_ref().types_global_values.len();
        let r = b.type_struct_id(Some(77), vec![f]);
        let r2 = b.type_struct_id(Some(78), vec![f]);
        let n2 = b.module_ref().types_global_values.len();
        if r != 77 || r2 != 78 || n2 != n1 + 2 { println!("MISMATCH explicit after {}: ids {} {}, declarations {} -> {}", la, r, r2, n1, n2); }
        // an explicit request always appends, even when an identical declaration with the very same id exists
        let p0 = b.type_pointer(None, spirv::StorageClass::Function, f);
        let n3 = b.module_ref().types_global_values.len();
        let p1 = b.type_pointer(Some(p0), spirv::StorageClass::Function, f);
        let p2 = b.type_pointer(Some(p0), spirv::StorageClass::Function, f);
        let n4 = b.module_ref().types_global_values.len();
        if p1 != p0 || p2 != p0 || n4 != n3 + 2 { println!("MISMATCH explicit type_pointer with the id of an identical declaration after {}: ids {} {} {}, declarations {} -> {}", la, p0, p1, p2, n3, n4); }
        let v0 = b.type_vector(f, 4);
        let n5 = b.module_ref().types_global_values.len();
        let v1 = b.type_vector_id(Some(v0), f, 4);
        let n6 = b.module_ref().types_global_values.len();
        if v1 != v0 || n6 != n5 + 1 { println!("MISMATCH explicit type_vector_id with the id of an identical declaration after {}: ids {} {}, declarations {} -> {}", la, v0, v1, n5, n6); }
    }
    // C06: the hand-written constant methods: 32- and 64-bit values with a zero and a non-zero high word survive assemble-then-load
    {
        use rspirv::binary::Assemble;
        for v in [0u64, 7, 0xffff_ffff, 0x1_0000_0000, 0x1234_5678_9abc_def0, u64::MAX] {
            let mut b = Builder::new();
            b.set_version(1, 3);
            let t64 = b.type_int(64, 0);
            let f64t = b.type_float(64, None);
            let t32 = b.type_int(32, 1);
            let _ = b.constant_bit64(t64, v);
            let _ = b.spec_constant_bit64(t64, v);
            let _ = b.constant_bit64(f64t, v);
            let _ = b.constant_bit32(t32, v as u32);
            let _ = b.spec_constant_bit32(t32, (v >> 32) as u32);
            let m = b.module();
            match rspirv::dr::load_words(m.assemble()) {
                Ok(l) => { if format!("{:?}", l) != format!("{:?}", m) { println!("MISMATCH constants of value {:#x}: the loaded module differs from the built one", v); } }
                Err(e) => println!("MISMATCH constants of value {:#x}: the loader rejects the assembled module: {:?}", v, e),
            }
        }
    }
    println!("checked pairs {}", checked);
}

/// storage-batch: one script per stdin line over a value type whose equality is NOT structural: values are `<key>.<payload>`,
/// equal iff same key; key N is never equal to anything (like NaN), key W equals every non-W value but not another W.
/// ops: a:<v> append, f:<v> fetch_or_append. Prints the token of each op and, at the end, the value behind each token.
fn storage_batch() {
    use std::io::BufRead;
    #[derive(Clone, Debug)]
    struct V { key: String, payload: String }
    impl PartialEq for V {
        fn eq(&self, o: &V) -> bool {
            if self.key == "N" || o.key == "N" { return false; }
            if self.key == "W" && o.key == "W" { return false; }
            if self.key == "W" || o.key == "W" { return true; }
            self.key == o.key
        }
    }
    std::panic::set_hook(Box::new(|_| {}));
    // long history: 70 000 appends, every token keeps its value, indices stay dense, fetch finds the last one
    {
        let mut st: rspirv::sr::storage::Storage<u32> = rspirv::sr::storage::Storage::new();
        let mut toks = Vec::new();
        for i in 0..70_000u32 { toks.push(st.append(i)); }
        let mut bad = 0;
        for (i, t) in toks.iter().enumerate() {
            if t.index() as usize != i || st[*t] != i as u32 { bad += 1; if bad <= 3 { println!("LONG MISMATCH append #{}: token index {} value {}", i, t.index(), st[*t]); } }
        }
        let t = st.fetch_or_append(69_999);
        if t.index() as usize != 69_999 { println!("LONG MISMATCH fetch_or_append(69999) -> token {}", t.index()); bad += 1; }
        println!("LONG checked 70000 appends, {} mismatches", bad);
    }
    for line in std::io::stdin().lock().lines() {
        let line = line.unwrap();
        let r = std::panic::catch_unwind(|| {
            let mut st: rspirv::sr::storage::Storage<V> = rspirv::sr::storage::Storage::new();
            let mut toks = vec![];
            let mut out = vec![];
            for op in line.split_whitespace() {
                let (k, p) = op[2..].split_once('.').unwrap();
                let v = V { key: k.to_string(), payload: p.to_string() };
                let t = if op.starts_with("a:") { st.append(v) } else { st.fetch_or_append(v) };
                out.push(format!("{}", t.index()));
                toks.push(t);
            }
            let vals: Vec<String> = toks.iter().map(|t| format!("{}.{}", st[*t].key, st[*t].payload)).collect();
            format!("tokens {} lookups {}", out.join(","), vals.join(","))
        });
        match r { Ok(s) => println!("{}", s), Err(_) => println!("PANIC") }
    }
}

/// parse-only: stdin lines of hex BYTES; the real parser with a consumer that accepts everything (no loader):
/// `Ok <n instructions> <operand count of the last instruction>` | `Err <Debug>` | `PANIC`
fn parse_only() {
    use std::io::BufRead;
    struct C(usize, usize);
    impl rspirv::binary::Consumer for C {
        fn initialize(&mut self) -> rspirv::binary::ParseAction { rspirv::binary::ParseAction::Continue }
        fn finalize(&mut self) -> rspirv::binary::ParseAction { rspirv::binary::ParseAction::Continue }
        fn consume_header(&mut self, _h: rspirv::dr::ModuleHeader) -> rspirv::binary::ParseAction { rspirv::binary::ParseAction::Continue }
        fn consume_instruction(&mut self, i: rspirv::dr::Instruction) -> rspirv::binary::ParseAction { self.0 += 1; self.1 = i.operands.len(); rspirv::binary::ParseAction::Continue }
    }
    std::panic::set_hook(Box::new(|_| {}));
    for line in std::io::stdin().lock().lines() {
        let bytes = parse_hex_bytes(&line.unwrap());
        let r = std::panic::catch_unwind(|| { let mut c = C(0, 0); let r = rspirv::binary::parse_bytes(&bytes, &mut c); (r.map_err(|e| format!("{:?}", e)), c.0, c.1) });
        match r {
            Ok((Ok(()), n, k)) => println!("Ok {} {}", n, k),
            Ok((Err(e), _, _)) => println!("Err {}", e.replace(' ', "").chars().take(100).collect::<String>()),
            Err(_) => println!("PANIC"),
        }
    }
}

fn main() {
    let args: Vec<String> = env::args().collect();
    match args.get(1).map(|s| s.as_str()) {
        Some("reflect-dump") => reflect_dump(),
        Some("load-words") => load_words_cmd(&args[2..]),
        Some("enum-scan") => enum_scan(&args[2..]),
        Some("load-bytes") => load_bytes_cmd(&args[2..]),
        Some("decoder-script") => decoder_script(&args[2..]),
        Some("storage-script") => storage_script(&args[2..]),
        Some("storage-batch") => storage_batch(),
        Some("table-dump") => table_dump(&args[2]),
        Some("load-batch") => load_batch(),
        Some("builder-script") => builder_script(&args[2..]),
        Some("consumer-script") => consumer_script(&args[2..]),
        Some("parse-batch") => parse_batch(),
        Some("parse-only") => parse_only(),
        Some("reflect-sweep") => reflect_sweep(),
        Some("traversal-sweep") => traversal_sweep(),
        Some("dedup-sweep") => dedup_sweep(),
        Some("builder-batch") => {
            use std::io::BufRead;
            std::panic::set_hook(Box::new(|_| {}));
            for line in std::io::stdin().lock().lines() {
                let ops: Vec<String> = line.unwrap().split_whitespace().map(|x| x.to_string()).collect();
                builder_script(&ops);
                println!("--");
            }
        }
        Some("lookup-scan") => lookup_scan(&args[2]),
        _ => {
            eprintln!("usage: vreplay <subcommand> ...");
            std::process::exit(64);
        }
    }
}
