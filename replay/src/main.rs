//! vreplay — runs concrete inputs against the real rspirv/spirv crates.
use rspirv::grammar::reflect;
use std::env;

fn all_ops() -> Vec<spirv::Op> {
    (0u32..=0xFFFF).filter_map(spirv::Op::from_u32).collect()
}

/// One line per declared opcode: number, name, then the 13 predicate values.
fn reflect_dump() {
    for op in all_ops() {
        let p: [(&str, bool); 13] = [
            ("is_location_debug", reflect::is_location_debug(op)),
            ("is_nonlocation_debug", reflect::is_nonlocation_debug(op)),
            ("is_debug", reflect::is_debug(op)),
            ("is_annotation", reflect::is_annotation(op)),
            ("is_type", reflect::is_type(op)),
            ("is_constant", reflect::is_constant(op)),
            ("is_variable", reflect::is_variable(op)),
            ("is_return", reflect::is_return(op)),
            ("is_abort", reflect::is_abort(op)),
            ("is_return_or_abort", reflect::is_return_or_abort(op)),
            ("is_branch", reflect::is_branch(op)),
            ("is_block_terminator", reflect::is_block_terminator(op)),
            ("_", false),
        ];
        let vals: Vec<String> = p.iter().filter(|x| x.0 != "_").map(|x| format!("{}={}", x.0, x.1 as u8)).collect();
        println!("{} {:?} {}", op as u32, op, vals.join(" "));
    }
}

fn parse_words(args: &[String]) -> Vec<u32> {
    args.iter()
        .map(|a| {
            let a = a.trim_start_matches("0x");
            u32::from_str_radix(a, 16).expect("hex word")
        })
        .collect()
}

/// load_words on the given hex words; prints Ok + section sizes + disassembly, or Err + message.
/// A panic is reported as PANIC (exit 101 from the runtime).
fn load_words_cmd(args: &[String]) {
    let words = parse_words(args);
    match rspirv::dr::load_words(&words) {
        Ok(m) => {
            use rspirv::binary::{Assemble, Disassemble};
            println!("Ok");
            println!("sections caps={} exts={} imports={} mm={} eps={} modes={} dbgsrc={} dbgnames={} dbgmp={} annots={} tgv={} fns={}",
                m.capabilities.len(), m.extensions.len(), m.ext_inst_imports.len(), m.memory_model.is_some() as u8,
                m.entry_points.len(), m.execution_modes.len(), m.debug_string_source.len(), m.debug_names.len(),
                m.debug_module_processed.len(), m.annotations.len(), m.types_global_values.len(), m.functions.len());
            let re: Vec<String> = m.assemble().iter().map(|w| format!("{:08x}", w)).collect();
            println!("assembled {}", re.join(" "));
            println!("{}", m.disassemble());
        }
        Err(e) => println!("Err {:?} :: {}", e, e),
    }
}

fn main() {
    let args: Vec<String> = env::args().collect();
    match args.get(1).map(|s| s.as_str()) {
        Some("reflect-dump") => reflect_dump(),
        Some("load-words") => load_words_cmd(&args[2..]),
        _ => {
            eprintln!("usage: vreplay <subcommand> ...");
            std::process::exit(64);
        }
    }
}
