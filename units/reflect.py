"""unit `reflect` — grammar/reflect.rs, all 13 predicates, under contract (C16, feeds C05/C06).

Spec side:
  * O2 class sets, rebuilt on every run from the generated builder files
    (autogen_type/constant/annotation/debug.rs are the image of the Khronos
    `class` column, see autogen/src/dr.rs) + the generator's documented
    exclusions;
  * block-termination sets written from the SPIR-V specification's definition
    of a block termination instruction (fixed lists, below).
"""
import re
from .common import (Source, Piece, Gen, Lost, HEADER, SPIRV, emit_enum, emit_alias_impl,
                     ops_in_file, spec_set_fn, enum_variants, alias_consts, count_clauses)

NAME = "reflect"
REFLECT = "rspirv/grammar/reflect.rs"

# generator exclusions (autogen/src/dr.rs: gen_dr_builder_types/constants/annotation/debug)
TYPE_EXCL = ["TypeForwardPointer", "TypePointer", "TypeOpaque"]
CONST_EXCL = ["Constant", "SpecConstant", "ConstantCompositeContinuedINTEL",
              "SpecConstantCompositeContinuedINTEL"]
ANNOT_EXCL = ["DecorationGroup"]
DEBUG_EXCL = ["String", "Line", "NoLine"]

# SPIR-V specification, "Block termination instruction":
SPEC_BRANCH = ["Branch", "BranchConditional", "Switch"]
SPEC_RETURN = ["Return", "ReturnValue"]
SPEC_ABORT = ["Kill", "Unreachable", "TerminateInvocation", "IgnoreIntersectionKHR",
              "TerminateRayKHR", "EmitMeshTasksEXT"]
LOC_DEBUG = ["Line", "NoLine"]


def class_sets():
    """O2: name -> ordered list of Op variant names."""
    def uniq(xs):
        out = []
        for x in xs:
            if x not in out:
                out.append(x)
        return out
    aliases = alias_consts(SPIRV, "Op")

    def canon(xs):
        return uniq([aliases.get(x, x) for x in xs])
    t = canon(ops_in_file("rspirv/dr/build/autogen_type.rs") + TYPE_EXCL)
    c = canon(ops_in_file("rspirv/dr/build/autogen_constant.rs") + CONST_EXCL)
    a = canon(ops_in_file("rspirv/dr/build/autogen_annotation.rs") + ANNOT_EXCL)
    d = canon(ops_in_file("rspirv/dr/build/autogen_debug.rs") + DEBUG_EXCL)
    bt = canon(ops_in_file("rspirv/dr/build/autogen_terminator.rs"))
    return {
        "class_type": t, "class_constant": c, "class_annotation": a, "class_debug": d,
        "spec_loc_debug": LOC_DEBUG,
        "spec_nonloc_debug": [x for x in d if x not in LOC_DEBUG],
        "spec_branch": SPEC_BRANCH, "spec_return": SPEC_RETURN, "spec_abort": SPEC_ABORT,
        "builder_terminator": bt,
    }


CONTRACTS = {
    "is_location_debug": "ensures r == crate::o2::spec_loc_debug(opcode),",
    "is_nonlocation_debug": "ensures r == crate::o2::spec_nonloc_debug(opcode),",
    "is_debug": "ensures r == (crate::o2::spec_loc_debug(opcode) || crate::o2::spec_nonloc_debug(opcode)),",
    "is_annotation": "ensures r == crate::o2::class_annotation(opcode),",
    "is_type": "ensures r == crate::o2::class_type(opcode),",
    "is_constant": "ensures r == crate::o2::class_constant(opcode),",
    "is_variable": "ensures r == (opcode == spirv::Op::Variable),",
    "is_return": "ensures r == crate::o2::spec_return(opcode),",
    "is_abort": "ensures r == crate::o2::spec_abort(opcode),",
    "is_return_or_abort": "ensures r == (crate::o2::spec_return(opcode) || crate::o2::spec_abort(opcode)),",
    "is_branch": "ensures r == crate::o2::spec_branch(opcode),",
    "is_block_terminator": "ensures r == crate::o2::spec_block_terminator(opcode),",
}
PREDICATES = list(CONTRACTS.keys()) + []


def emit_spirv_op(g):
    g.raw("pub mod spirv {")
    g.raw("use vstd::prelude::*;")
    g.raw("pub type Word = u32;")
    it = emit_enum(g, SPIRV, "Op")
    if emit_alias_impl(g, SPIRV, "Op") < 1:
        raise Lost("alias consts of Op not found")
    g.raw("} // mod spirv")
    return it


def emit_o2(g, sets):
    g.raw("pub mod o2 {")
    g.raw("use vstd::prelude::*;")
    g.raw("use crate::spirv::Op;")
    for name in ("class_type", "class_constant", "class_annotation", "class_debug", "spec_loc_debug",
                 "spec_nonloc_debug", "spec_branch", "spec_return", "spec_abort", "builder_terminator"):
        g.raw(spec_set_fn(name, "Op", sets[name]))
    g.raw("pub open spec fn spec_block_terminator(op: Op) -> bool {\n"
          "    spec_branch(op) || spec_return(op) || spec_abort(op)\n}\n")
    g.raw("} // mod o2")


def emit_reflect_fns(g, contracts=CONTRACTS, only=None):
    src = Source.get(REFLECT)
    fns = [it for it in src.items if it.kind == "fn"]
    names = [f.name for f in fns]
    for want in contracts:
        if want not in names:
            raise Lost("reflect.rs: predicate %s is gone" % want)
    for f in fns:
        if only is not None and f.name not in only:
            continue
        p = Piece(f)
        if f.name in contracts:
            p.name_result("r")
            p.add_contract("    " + contracts[f.name])
            g.contract_clauses += count_clauses(contracts[f.name])
            g.emit(p, name="grammar::reflect::" + f.name)
        else:
            # a predicate this unit has no contract for: still verified for panic freedom
            g.emit(p, name="grammar::reflect::" + f.name, under_contract=False)


def build(tier="quick", must_fail=False):
    g = Gen(NAME if not must_fail else NAME + "_mustfail")
    sets = class_sets()
    g.sets = sets
    g.raw(HEADER)
    g.raw("verus! {")
    emit_spirv_op(g)
    emit_o2(g, sets)
    g.raw("pub mod grammar { pub mod reflect {")
    g.raw("use vstd::prelude::*;")
    g.raw("use crate::spirv;")
    if must_fail:
        c = dict(CONTRACTS)
        c["is_block_terminator"] = "ensures false,"
        emit_reflect_fns(g, c, only=["is_block_terminator", "is_branch", "is_return_or_abort", "is_return", "is_abort"])
    else:
        emit_reflect_fns(g)
    g.raw("} } // mod grammar::reflect")
    if not must_fail:
        g.raw("pub mod lemmas {")
        g.raw("use vstd::prelude::*;")
        g.raw("use crate::spirv::Op;")
        g.raw("use crate::o2::*;")
        g.raw("use crate::grammar::reflect::*;")
        # pairwise disjointness of the base classes, stated over the real predicates' results
        g.raw("""
// C16: the base classes are pairwise disjoint (through the contracts of the real predicates).
pub fn base_classes_disjoint(op: Op) {
    let t = is_type(op); let c = is_constant(op); let a = is_annotation(op);
    let d = is_debug(op); let v = is_variable(op); let b = is_block_terminator(op);
    assert(!(t && c)); assert(!(t && a)); assert(!(t && d)); assert(!(t && v)); assert(!(t && b));
    assert(!(c && a)); assert(!(c && d)); assert(!(c && v)); assert(!(c && b));
    assert(!(a && d)); assert(!(a && v)); assert(!(a && b));
    assert(!(d && v)); assert(!(d && b)); assert(!(v && b));
    let l = is_location_debug(op); let n = is_nonlocation_debug(op);
    assert(!(l && n));
    let br = is_branch(op); let re = is_return(op); let ab = is_abort(op);
    assert(!(br && re)); assert(!(br && ab)); assert(!(re && ab));
}
""")
        # builder ends a block for exactly the opcodes the terminator predicate accepts: one
        # obligation per opcode, both directions, so a failure names the opcode
        for op in sets["builder_terminator"]:
            g.raw("// C16/C06: Builder has a terminator method (ends the block) for Op%s\n"
                  "pub fn builder_terminator_accepted_%s() { let r = is_block_terminator(Op::%s); assert(r); }"
                  % (op, op, op))
        for op in SPEC_BRANCH + SPEC_RETURN + SPEC_ABORT:
            g.raw("pub proof fn terminator_has_builder_method_%s() ensures builder_terminator(Op::%s) {}"
                  % (op, op))
        g.raw("} // mod lemmas")
    g.raw("} // verus!")
    g.raw("fn main() {}")
    return g


def describe():
    return {
        "unit": NAME,
        "functions_under_contract": ["grammar::reflect::" + n for n in CONTRACTS],
        "oracles": ["O1 Op declaration", "O2 builder class files + generator exclusions",
                    "SPIR-V spec block-termination list (fixed in units/reflect.py)"],
    }


# ---------------------------------------------------------------------------
# witness search: the input domain is the 787 declared opcodes — swept completely on the real
# crate (vreplay reflect-dump), compared with the spec sets the contracts are written over
# ---------------------------------------------------------------------------

def _spec_value(sets, pred, op):
    s = lambda n: op in sets[n]
    return {
        "is_location_debug": s("spec_loc_debug"),
        "is_nonlocation_debug": s("spec_nonloc_debug"),
        "is_debug": s("spec_loc_debug") or s("spec_nonloc_debug"),
        "is_annotation": s("class_annotation"),
        "is_type": s("class_type"),
        "is_constant": s("class_constant"),
        "is_variable": op == "Variable",
        "is_return": s("spec_return"),
        "is_abort": s("spec_abort"),
        "is_return_or_abort": s("spec_return") or s("spec_abort"),
        "is_branch": s("spec_branch"),
        "is_block_terminator": s("spec_branch") or s("spec_return") or s("spec_abort"),
    }[pred]


def sweep(ctx):
    p, err = ctx["vreplay"](["reflect-dump"])
    if p is None or p.returncode != 0:
        return None, err or (p.stderr[-500:] if p else "")
    sets = class_sets()
    mism = []
    n = 0
    for line in p.stdout.splitlines():
        parts = line.split()
        num, name = int(parts[0]), parts[1]
        n += 1
        for kv in parts[2:]:
            k, v = kv.split("=")
            exp = _spec_value(sets, k, name)
            if bool(int(v)) != exp:
                mism.append({"predicate": k, "opcode": name, "number": num, "real": bool(int(v)), "spec": exp})
    return (n, mism, sets), ""


def witness(failure, ctx):
    r, err = sweep(ctx)
    if r is None:
        return {"found": False, "error": err}
    n, mism, sets = r
    item = (failure.get("item") or "")
    name = item.split("::")[-1]
    if name in CONTRACTS:
        mine = [m for m in mism if m["predicate"] == name]
        return {"found": bool(mine), "exhaustive": True, "input": mine[:20], "swept_opcodes": n,
                "how": "vreplay reflect-dump: real predicate on all declared opcodes vs spec class"}
    m = re.match(r"builder_terminator_accepted_(\w+)", name)
    if m:
        op = m.group(1)
        real = [x for x in mism if x["opcode"] == op and x["predicate"] == "is_block_terminator"]
        # real predicate value for op:
        p, _ = ctx["vreplay"](["reflect-dump"])
        val = None
        for line in p.stdout.splitlines():
            parts = line.split()
            if parts[1] == op:
                val = "is_block_terminator=1" in parts
        return {"found": val is False and op in sets["builder_terminator"], "exhaustive": True,
                "input": {"opcode": op, "real_is_block_terminator": val,
                          "builder_has_terminator_method": op in sets["builder_terminator"]},
                "how": "Builder method for Op%s calls end_block (autogen_terminator.rs) but the real "
                       "is_block_terminator(Op::%s) is false" % (op, op)}
    m = re.match(r"terminator_has_builder_method_(\w+)", name)
    if m:
        op = m.group(1)
        return {"found": op not in sets["builder_terminator"], "exhaustive": True,
                "input": {"opcode": op, "builder_has_terminator_method": op in sets["builder_terminator"]}}
    if name == "base_classes_disjoint":
        return {"found": False, "exhaustive": False}
    # no particular obligation (the unit became unverifiable): every predicate on every declared opcode against its spec class
    return {"found": bool(mism), "exhaustive": True, "input": mism[:20], "swept_opcodes": n,
            "how": "vreplay reflect-dump: all 13 real predicates on all declared opcodes vs their spec classes"}
