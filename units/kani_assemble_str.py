"""unit `kani_assemble_str` — BOUNDED stand-in (never counted as proved) for `assemble_str`
(binary/assemble.rs), which is all iterator adapters (chunks_exact / remainder / copy_from_slice /
map / extend) and cannot be taken by Verus.

The function text is extracted mechanically on every run into a Kani mini crate (nothing else of
assemble.rs is needed by it). Bound: all ASCII strings of length <= 9 (all residues mod 4 at least
twice), prefix vector of one word. Checked: exactly len/4 + 1 words are appended, word k is the
little-endian packing of bytes 4k..4k+3 with zeros beyond the end (so the string is NUL-terminated and
zero-padded to a word boundary), the prefix is untouched — the contract unit `assemble` assumes.
"""
import os
import sys
sys.path.insert(0, os.path.join(os.path.dirname(__file__), "..", "tools"))
import krun  # noqa: E402
from .common import Source, Lost  # noqa: E402

NAME = "kani_assemble_str"
ENGINE = "kani"
BOUND = 9

CARGO = """[package]
name = "kani_assemble_str"
version = "0.0.0"
edition = "2018"
[dependencies]
[workspace]
"""

HARNESS = """
#[cfg(kani)]
mod h {
    use super::assemble_str;
    const N: usize = %(N)d;
    fn byte_or_zero(b: &[u8], i: usize) -> u32 { if i < b.len() { b[i] as u32 } else { 0 } }
    #[kani::proof]
    #[kani::unwind(%(U)d)]
    fn assemble_str_bounded() {
        let bytes: [u8; N] = kani::any();
        let len: usize = kani::any();
        kani::assume(len <= N);
        let mut i = 0;
        while i < N { kani::assume(bytes[i] < 0x80); i += 1; }   // ASCII: any such slice is a valid &str
        let s = std::str::from_utf8(&bytes[..len]).unwrap();
        let prefix: u32 = kani::any();
        let mut result = vec![prefix];
        assemble_str(s, &mut result);
        assert!(result.len() == 1 + len / 4 + 1);
        assert!(result[0] == prefix);
        let mut k = 0;
        while k < len / 4 + 1 {
            let w = byte_or_zero(&bytes[..len], 4 * k) | (byte_or_zero(&bytes[..len], 4 * k + 1) << 8)
                | (byte_or_zero(&bytes[..len], 4 * k + 2) << 16) | (byte_or_zero(&bytes[..len], 4 * k + 3) << 24);
            assert!(result[1 + k] == w);
            k += 1;
        }
    }
    #[kani::proof]
    #[kani::unwind(%(U)d)]
    fn mustfail_assemble_str() {
        let mut result = vec![];
        assemble_str("abcd", &mut result);
        assert!(result.len() == 1); // must be refuted (two words are emitted)
    }
}
"""


def run(tier, workdir):
    global BOUND
    BOUND = 9 if tier == "thorough" else 5
    f = Source.get("rspirv/binary/assemble.rs").find("fn", "assemble_str")
    lib = "#![allow(dead_code)]\nuse std::convert::TryInto;\n// extracted verbatim from rspirv/binary/assemble.rs:%d\n%s\n%s" % (
        f.line, f.core_text, HARNESS % {"N": BOUND, "U": BOUND + 3})
    d = krun.prepare(NAME, {"Cargo.toml": CARGO, "src/lib.rs": lib}, os.path.dirname(workdir))
    try:
        os.remove(os.path.join(d, "Cargo.lock"))
    except OSError:
        pass
    hs = {"assemble_str_bounded": {"kind": "bounded", "bound": "ASCII strings of length <= %d" % BOUND},
          "mustfail_assemble_str": {"kind": "control"}}
    r = krun.run_kani(d, hs, unit=NAME, timeout=1800)
    mf = r["functions"].pop(NAME + "::mustfail_assemble_str", None)
    rejected = mf is not None and not mf["ok"] and any(f_["item"] == "harness::mustfail_assemble_str" for f_ in r["failures"])
    r["failures"] = [f_ for f_ in r["failures"] if f_["item"] != "harness::mustfail_assemble_str"]
    r["undecided"] = [u for u in r["undecided"] if "mustfail" not in str(u.get("detail", ""))]
    r["errors"] = len([1 for f_ in r["functions"].values() if not f_["ok"]])
    r["mustfail"] = {"rejected": rejected, "failures": 1 if rejected else 0, "undecided": []}
    return r


def describe():
    return {"unit": NAME, "functions_under_contract": [],
            "bounded": ["binary::assemble::assemble_str: Kani, all ASCII strings of length <= 5 (quick) / <= 9 (thorough), unwinding assertions on; BOUNDED, not a proof"],
            "assumptions": ["CBMC memory model"]}


def witness(failure, ctx):
    pb = failure.get("playback")
    return {"found": bool(pb), "exhaustive": False, "input": pb, "how": "Kani concrete playback" if pb else "no concrete values"}
