"""unit `parser_protocol` — binary/parser.rs: Action::consume, the Consumer trait, Parser::{new, parse},
parse_bytes (C14).

The Consumer trait gets a ghost `log()`; each callback's contract says it appends exactly one
event carrying the arguments and the answer — the definition of a well-behaved consumer, stated
once in the trait. `parse` is then proved to produce a log delta satisfying `protocol`, written
from C14's statement. parse_header / parse_inst are used through their contracts (frame: they do
not touch the consumer; parse_inst Ok => the offset grows), discharged in unit parser_core.
"""
import re
from .common import Source, Piece, Gen, Lost, HEADER, count_clauses
from . import lib_spirv, lib_dr

NAME = "parser_protocol"
FILE = "rspirv/binary/parser.rs"
ERR = "rspirv/binary/autogen_error.rs"
DEC = "rspirv/binary/decoder.rs"

SPEC = r"""
// ---- C14: events and the protocol, written from the statement -------------------------------------
pub enum Ans { Continue, Stop, Error(BoxedError) }
pub open spec fn ans_of(a: Action) -> Ans {
    match a { Action::Continue => Ans::Continue, Action::Stop => Ans::Stop, Action::Error(e) => Ans::Error(e) }
}
pub enum Event {
    Init(Ans),
    Header(dr::ModuleHeader, Ans),
    Inst(dr::Instruction, Ans),
    Finalize(Ans),
}
pub open spec fn answer(e: Event) -> Ans {
    match e { Event::Init(a) => a, Event::Header(_, a) => a, Event::Inst(_, a) => a, Event::Finalize(a) => a }
}
pub open spec fn is_consumer_state(s: State) -> bool { s is ConsumerStopRequested || s is ConsumerError }
// l = the consumer's log after the parse, n = its length before: the events of this parse are l[n..];
// r = the parse result
pub open spec fn protocol(l: Seq<Event>, n: int, r: Result<()>) -> bool {
    &&& l.len() >= n + 1 && l[n] is Init                                   // initialize comes first, once
    &&& (forall|i: int| n + 1 <= i < l.len() ==> !(#[trigger] l[i] is Init))
    &&& (l.len() >= n + 2 ==> l[n + 1] is Header)                           // then the header, once
    &&& (forall|i: int| n + 2 <= i < l.len() ==> !(#[trigger] l[i] is Header))
    &&& (forall|i: int| n + 2 <= i < l.len() - 1 ==> #[trigger] l[i] is Inst) // then only instructions ...
    &&& (l.len() >= n + 3 ==> (l.last() is Inst || l.last() is Finalize))   // ... and at most one finalize, last
    // as soon as a callback answers stop or error, no further callback is made
    &&& (forall|i: int| n <= i < l.len() - 1 ==> #[trigger] answer(l[i]) is Continue)
    // the result reflects the last answer; finalize only if everything was parsed without error
    &&& (match answer(l.last()) {
            Ans::Stop => r == Err::<(), State>(State::ConsumerStopRequested),
            Ans::Error(e) => r == Err::<(), State>(State::ConsumerError(e)),
            Ans::Continue => if l.last() is Finalize { r is Ok } else { r matches Err(s) && !is_consumer_state(s) },
        })
    &&& (r is Ok ==> l.last() is Finalize)
}
// earlier entries of the log are untouched
pub open spec fn extends(old_l: Seq<Event>, l: Seq<Event>) -> bool {
    old_l.len() <= l.len() && forall|i: int| 0 <= i < old_l.len() ==> #[trigger] l[i] == old_l[i]
}
"""

STUBS = r"""
// ---- callees by contract (discharged in unit parser_core / decoder / tracker) ----------------------
// the tracker as seen by the parse loop: the sequence of instructions it has been shown (C10: literal widths
// depend on exactly the instructions already delivered in THIS parse)
pub struct TypeTracker { pub seen: Ghost<Seq<dr::Instruction>> }
impl TypeTracker {
    pub open spec fn tracked(&self) -> Seq<dr::Instruction> { self.seen@ }
    #[verifier::external_body]
    pub fn new() -> (r: TypeTracker) ensures r.tracked().len() == 0 { unimplemented!() }
    #[verifier::external_body]
    pub fn track(&mut self, inst: &dr::Instruction) ensures final(self).tracked() == old(self).tracked().push(*inst) { unimplemented!() }
}
pub open spec fn inst_of(e: Event) -> dr::Instruction { match e { Event::Inst(i, _) => i, _ => arbitrary() } }
// every instruction handed to the consumer was shown to the tracker first, in the same order, and nothing else was
pub open spec fn tracked_all(t0: Seq<dr::Instruction>, t: Seq<dr::Instruction>, l: Seq<Event>, n: int) -> bool {
    &&& t0.len() <= t.len() && (forall|i: int| 0 <= i < t0.len() ==> #[trigger] t[i] == t0[i])
    &&& (forall|i: int| n + 2 <= i < l.len() && (#[trigger] l[i] is Inst) ==> (t0.len() + (i - n - 2) < t.len() && t[t0.len() + (i - n - 2)] == inst_of(l[i])))
    &&& t.len() - t0.len() <= l.len() - n - 2 || l.len() < n + 2
    &&& (l.len() >= n + 2 ==> (t.len() - t0.len() == l.len() - n - 2 || (l.last() is Finalize && t.len() - t0.len() == l.len() - n - 3)))
}
pub mod decoder {
    use vstd::prelude::*;
    pub struct Decoder<'a> { pub bytes: &'a [u8], pub offset: usize, pub limit: Option<usize> }
    impl<'a> Decoder<'a> {
        #[verifier::external_body]
        pub fn new(bytes: &'a [u8]) -> (r: Decoder<'a>) ensures r.bytes@ == bytes@, r.offset == 0, r.limit is None { unimplemented!() }
    }
}
impl<'c, 'd> Parser<'c, 'd> {
    // frame + progress part of parse_header's contract (unit parser_core proves it on the real body)
    #[verifier::external_body]
    pub fn parse_header(&mut self) -> (r: Result<dr::ModuleHeader>)
        ensures final(self).consumer.log() == old(self).consumer.log(), final(self).type_tracker == old(self).type_tracker,
            final(self).decoder.bytes@ == old(self).decoder.bytes@,
            final(self).decoder.offset <= final(self).decoder.bytes@.len() || old(self).decoder.offset > old(self).decoder.bytes@.len(),
            r matches Err(s) ==> !is_consumer_state(s),
    { unimplemented!() }
    #[verifier::external_body]
    pub fn parse_inst(&mut self) -> (r: Result<dr::Instruction>)
        ensures final(self).consumer.log() == old(self).consumer.log(), final(self).type_tracker == old(self).type_tracker,
            final(self).decoder.bytes@ == old(self).decoder.bytes@,
            old(self).decoder.offset <= old(self).decoder.bytes@.len() ==> final(self).decoder.offset <= final(self).decoder.bytes@.len(),
            // an instruction was parsed => at least its first word was consumed
            r is Ok ==> final(self).decoder.offset > old(self).decoder.offset,
            r matches Err(s) ==> !is_consumer_state(s),
    { unimplemented!() }
}
"""


def build(tier="quick", must_fail=False):
    g = Gen(NAME if not must_fail else NAME + "_mustfail")
    src = Source.get(FILE)
    g.raw(HEADER)
    g.raw("verus! {")
    lib_spirv.emit(g, with_alias=True, from_u32=False)
    lib_dr.emit_grammar(g, with_reflect=False)
    lib_dr.emit_dr(g, with_new=False)
    g.raw("pub mod binary {\nuse vstd::prelude::*;\nuse crate::spirv;\nuse crate::dr;\nuse std::result;")
    g.raw("pub mod autogen_error {\nuse vstd::prelude::*;\nuse crate::spirv;")
    g.emit(Piece(Source.get(ERR).find("enum", "Error")), name="binary::autogen_error::Error", under_contract=False)
    g.raw("}\npub use self::autogen_error::Error as DecodeError;")
    g.raw("// R3: `Box<dyn error::Error + Send + Sync>` — opaque box; the consumer's own error value travels in it\n"
          "pub struct BoxedError { pub id: Ghost<int> }")
    for en in ("State", "Action"):
        p = Piece(src.find("enum", en))
        p.sub(r"Box<dyn error::Error \+ Send \+ Sync>", "BoxedError", "R3", count=1)
        g.emit(p, name="binary::parser::" + en, under_contract=False)
    g.emit(Piece(src.find("type", "Result")), name="binary::parser::Result", under_contract=False)
    g.raw(SPEC)
    # impl From<DecodeError> for State (real)
    fr = [i for i in src.find_all("impl") if i.impl_of == "State" and i.impl_trait == "From"]
    if len(fr) != 1:
        raise Lost("impl From<DecodeError> for State not found")
    # Action::consume
    p = Piece(src.find("fn", "Action::consume"))
    p.name_result("r")
    p.sub(r"^fn ", "pub fn ", "R15", count=1)
    c = """    ensures
        self is Continue ==> r is Ok,
        self is Stop ==> r == Err::<(), State>(State::ConsumerStopRequested),
        self matches Action::Error(e) ==> r == Err::<(), State>(State::ConsumerError(e)),"""
    if must_fail:
        c = "    ensures false,"
    p.add_contract(c)
    g.contract_clauses += count_clauses(c)
    g.raw("impl Action {")
    g.emit(p, name="binary::parser::Action::consume")
    g.raw("}")
    if must_fail:
        g.raw("} // mod binary\n} // verus!\nfn main() {}")
        return g
    # the Consumer trait: real signatures, contracts spliced in
    tr = src.find("trait", "Consumer")
    tp = Piece(tr)
    sigs = {
        "initialize": "final(self).log() == old(self).log().push(Event::Init(ans_of(a)))",
        "finalize": "final(self).log() == old(self).log().push(Event::Finalize(ans_of(a)))",
        "consume_header": "final(self).log() == old(self).log().push(Event::Header(module, ans_of(a)))",
        "consume_instruction": "final(self).log() == old(self).log().push(Event::Inst(inst, ans_of(a)))",
    }
    for name, ens in sigs.items():
        n = tp.sub(r"(fn %s\([^)]*\)) -> Action;" % name, r"\1 -> (a: Action)\n        ensures %s;" % ens.replace("\\", "\\\\"),
                   "contract", count=1)
    tp.insert_at("{", "\n    // ghost: the sequence of callbacks this consumer has received, with its answers\n    spec fn log(&self) -> Seq<Event>;",
                 where="after", nth=1, tag="ghost")
    g.emit(tp, name="binary::parser::Consumer")
    g.contract_clauses += 4
    st = Piece(src.find("struct", "Parser"))
    st.sub(r"(\n\s*)(decoder|consumer|type_tracker|inst_index):", r"\1pub \2:", "R15", count=4)
    g.emit(st, name="binary::parser::Parser", under_contract=False)
    g.raw(STUBS)
    g.raw("impl<'c, 'd> Parser<'c, 'd> {")
    pn = Piece(src.find("fn", "Parser::new"))
    pn.name_result("r")
    pn.add_contract("""    ensures r.consumer.log() == old(consumer).log(), r.inst_index == 0, r.decoder.offset == 0, r.decoder.bytes@ == binary@,
        // C10: a fresh tracker per parser — nothing carries over from earlier parses
        r.type_tracker.tracked().len() == 0,""")
    g.emit(pn, name="binary::parser::Parser::new")
    pp = Piece(src.find("fn", "Parser::parse"))
    pp.name_result("r")
    pp.sub(r"pub fn parse\(mut self\)", "pub fn parse(&mut self)", "R4", count=1)
    pp.add_contract("""    requires old(self).decoder.offset <= old(self).decoder.bytes@.len(),
    ensures
        // the callbacks made by this parse: a suffix appended to the consumer's log, in protocol order
        extends(old(self).consumer.log(), final(self).consumer.log()),
        protocol(final(self).consumer.log(), old(self).consumer.log().len() as int, r),
        // C10/C03: the tracker was shown every delivered instruction (and only those), before its delivery
        (final(self).consumer.log().len() >= old(self).consumer.log().len() + 2) ==>
            tracked_all(old(self).type_tracker.tracked(), final(self).type_tracker.tracked(), final(self).consumer.log(), old(self).consumer.log().len() as int),
        (final(self).consumer.log().len() < old(self).consumer.log().len() + 2) ==> final(self).type_tracker == old(self).type_tracker,""")
    g.contract_clauses += 4
    pp.add_loop_contract(1, """            invariant
                self.decoder.offset <= self.decoder.bytes@.len(),
                self.decoder.bytes@ == old(self).decoder.bytes@,
                old(self).consumer.log().len() + 2 <= self.consumer.log().len(),
                extends(old(self).consumer.log(), self.consumer.log()),
                ({ let l = self.consumer.log(); let n = old(self).consumer.log().len() as int;
                   l[n] is Init && l[n + 1] is Header
                   && (forall|i: int| n + 2 <= i < l.len() ==> #[trigger] l[i] is Inst)
                   && (forall|i: int| n <= i < l.len() ==> #[trigger] answer(l[i]) is Continue)
                   && self.type_tracker.tracked().len() == old(self).type_tracker.tracked().len() + (l.len() - n - 2)
                   && tracked_all(old(self).type_tracker.tracked(), self.type_tracker.tracked(), l, n) }),
            decreases self.decoder.bytes@.len() - self.decoder.offset,""")
    g.emit(pp, name="binary::parser::Parser::parse")
    g.raw("}")
    g.raw("} // mod binary")
    g.raw("} // verus!")
    g.raw("fn main() {}")
    return g


def describe():
    return {
        "unit": NAME,
        "functions_under_contract": ["binary::parser::Action::consume", "binary::parser::Parser::new", "binary::parser::Parser::parse",
                                     "binary::parser::Consumer (trait contract)"],
        "assumptions": [
            "well-behaved consumer = every callback appends exactly one event to its ghost log and terminates (trait contract)",
            "parse_header/parse_inst frame + progress contract: assumed here, discharged by unit parser_core",
            "TypeTracker::track has no effect on consumer or decoder (it receives neither)",
            "R3: boxed consumer error is an opaque value moved unchanged into State::ConsumerError",
            "R4: `parse(mut self)` verified with a `&mut self` receiver",
        ],
    }


def witness(failure, ctx):
    """consumer answering stop/error/continue at every callback position, on four binaries (REAL parse_bytes)"""
    hdr = "03022307" + "00000100" + "00000000" + "0a000000" + "00000000"
    nop = "00000100"
    mm = "0e000300" + "00000000" + "01000000"
    badmagic = "efbeadde" + hdr[8:]
    swapped = "07230203" + hdr[8:]
    bins = {"empty": "", "short": "03022307", "badmagic": badmagic, "swapped": swapped, "hdr": hdr, "3inst": hdr + nop + mm + nop, "badop": hdr + nop + "ffff0100" + nop,
            "zerowc": hdr + nop + "00000000"}
    n_inst_ok = {"hdr": 0, "3inst": 3, "badop": 1, "zerowc": 1}
    tried = 0
    for name, hx in bins.items():
        for k in range(0, 8):
            for ans in ("cont", "stop", "error", "error_state_stop", "error_state_complete"):
                p, err = ctx["vreplay"](["consumer-script", hx, str(k), ans])
                if p is None or p.returncode != 0:
                    return {"found": False, "error": err or p.stderr[-300:]}
                tried += 1
                lines = p.stdout.splitlines()
                cbs = [l.split() for l in lines if l.startswith("cb ")]
                res = [l for l in lines if l.startswith("result ")][0][7:]
                # expected by C14
                exp = ["init"]
                parse_err = None
                if name in ("empty", "short"):
                    parse_err = "HeaderIncomplete"
                elif name == "badmagic":
                    parse_err = "HeaderIncorrect"
                elif name == "swapped":
                    parse_err = "EndiannessUnsupported"
                else:
                    exp.append("header")
                    exp += ["inst"] * n_inst_ok[name]
                    if name == "badop":
                        parse_err = "OpcodeUnknown"
                    elif name == "zerowc":
                        parse_err = "WordCountZero"
                    else:
                        exp.append("finalize")
                # truncate at the first non-continue answer
                if ans != "cont" and k < len(exp):
                    exp = exp[:k + 1]
                    expres = {"stop": "Err(ConsumerStopRequested)", "error": "Err(ConsumerError(MyErr(%d)))" % k,
                              "error_state_stop": "Err(ConsumerError(ConsumerStopRequested))", "error_state_complete": "Err(ConsumerError(Complete))"}[ans]
                else:
                    expres = ("Err(" + parse_err) if parse_err else "Ok(())"
                got = [c[2].split(":")[0] for c in cbs]
                if got != exp or not res.startswith(expres):
                    return {"found": True, "exhaustive": False,
                            "input": {"binary": name, "bytes_hex": hx, "answer": ans, "at_callback": k},
                            "observed": {"callbacks": got, "result": res}, "expected": {"callbacks": exp, "result": expres},
                            "how": "vreplay consumer-script on the real parse_bytes"}
    return {"found": False, "exhaustive": False, "how": "%d (binary, callback position, answer) combinations agreed with C14" % tried}
