"""unit `parser_core` — binary/parser.rs: parse_header, split_into_word_count_and_opcode, parse_inst,
parse_literal, parse_spec_constant_op, parse_operands, and all of autogen_parse_operand.rs
(parse_operand + the six *_arguments functions), verbatim (C03, C10, C04).

Callees by contract: Decoder (unit decoder), CoreInstructionTable::lookup_opcode + row shape
facts (unit table_core), TypeTracker::resolve (abstract map; unit kani_tracker, bounded).
Every assert!/expect/index/panic!() of these functions is an obligation here (C04).
"""
import re
from .common import Source, Piece, Gen, Lost, HEADER, count_clauses, enum_variants
from . import lib_spirv, lib_dr, decoder as decoder_unit, parser_protocol

NAME = "parser_core"
FILE = "rspirv/binary/parser.rs"
GEN = "rspirv/binary/autogen_parse_operand.rs"
TRACKER = "rspirv/binary/tracker.rs"
RLIMIT = 80
# the Decoration (73 enumerants), ImageOperands (11 flags) and LoopControl (20 flags) functions exceed the
# solver budget with the sequence-level clause; for them C17's agreement is checked by the exhaustive
# replay sweep of unit operand_reflect only (finite domains), not by Verus
C17_FNS = {"parse_memory_access_arguments", "parse_tensor_addressing_operands_arguments", "parse_execution_mode_arguments"}
import os as _os
ARGS_VAL_FNS = set((_os.environ.get("ARGS_VAL_FNS") or "parse_memory_access_arguments,parse_tensor_addressing_operands_arguments").split(","))
BIG = {"parse_operand", "parse_image_operands_arguments", "parse_loop_control_arguments", "parse_decoration_arguments",
       "parse_memory_access_arguments", "parse_execution_mode_arguments", "parse_tensor_addressing_operands_arguments"}

SPEC = r"""
// ---- spec vocabulary ---------------------------------------------------------------------------------
pub open spec fn is_consumer_state(s: State) -> bool { s is ConsumerStopRequested || s is ConsumerError }
// the five kinds the generic operand parser does not handle (its arms are `panic!()`)
pub open spec fn generic_kind(k: GOpKind) -> bool {
    !(k == GOpKind::IdResultType || k == GOpKind::IdResult || k == GOpKind::LiteralContextDependentNumber
      || k == GOpKind::LiteralSpecConstantOpInteger || k == GOpKind::PairLiteralIntegerIdRef)
}
// decoder accounting inside one instruction: limit l words were granted at offset o0
pub open spec fn acct(d: decoder::Decoder, o0: int, l0: int) -> bool {
    d.wf() && (d.limit matches Some(l) && l <= l0 && d.offset == o0 + 4 * (l0 - l))
}
// (instruction number, byte offset) carried by a parse error, when it carries them
pub open spec fn err_index(s: State) -> Option<int> {
    match s {
        State::WordCountZero(_, i) => Some(i as int), State::OpcodeUnknown(_, i, _) => Some(i as int),
        State::OperandExpected(_, i) => Some(i as int), State::OperandExceeded(_, i) => Some(i as int),
        State::TypeUnsupported(_, i) => Some(i as int), State::SpecConstantOpIntegerIncorrect(_, i) => Some(i as int),
        _ => None,
    }
}
pub open spec fn err_offset(s: State) -> Option<int> {
    match s {
        State::WordCountZero(o, _) => Some(o as int), State::OpcodeUnknown(o, _, _) => Some(o as int),
        State::OperandExpected(o, _) => Some(o as int), State::OperandExceeded(o, _) => Some(o as int),
        State::TypeUnsupported(o, _) => Some(o as int), State::SpecConstantOpIntegerIncorrect(o, _) => Some(o as int),
        _ => None,
    }
}
// relation between the parser at entry of an operand-parsing function and at an intermediate point
pub open spec fn step_inv(o: Parser, n: Parser) -> bool {
    &&& n.consumer.log() == o.consumer.log() && n.decoder.bytes == o.decoder.bytes && n.type_tracker == o.type_tracker
    &&& n.inst_index == o.inst_index && n.decoder.wf()
    &&& (n.decoder.limit matches Some(l2) && l2 <= o.decoder.limit->0)
    &&& n.decoder.offset - o.decoder.offset == 4 * (o.decoder.limit->0 - n.decoder.limit->0)
}
// words C10 prescribes for a literal of the given tracked type
pub open spec fn literal_words(t: Option<Type>) -> Option<int> {
    match t {
        None => Some(1),
        Some(Type::Integer(size, _)) => if size == 8 || size == 16 || size == 32 { Some(1) } else if size == 64 { Some(2) } else { None },
        Some(Type::Float(size)) => if size == 16 || size == 32 { Some(1) } else if size == 64 { Some(2) } else { None },
    }
}
"""

TRACKER_STUB = r"""
pub mod tracker {
use vstd::prelude::*;
use crate::spirv;
%(TYPE)s
// abstract view: id -> tracked type. `resolve` is the lookup (checked by the bounded Kani unit kani_tracker)
pub struct TypeTracker { pub types: Ghost<Map<u32, Type>> }
impl TypeTracker {
    pub open spec fn view(&self) -> Map<u32, Type> { self.types@ }
    #[verifier::external_body]
    pub fn resolve(&self, id: spirv::Word) -> (r: Option<Type>)
        ensures r == (if self.view().contains_key(id) { Some(self.view()[id]) } else { None::<Type> }),
    { unimplemented!() }
}
}
"""

# ---- contracts ---------------------------------------------------------------------------------------
FRAME = """final(self).consumer.log() == old(self).consumer.log(), final(self).decoder.bytes == old(self).decoder.bytes,
        final(self).type_tracker == old(self).type_tracker,"""

C = {}
C["split_into_word_count_and_opcode"] = ("r", """ensures r.0 == (word >> 16) as u16, r.1 == (word & 0xffff) as u16,""")
C["parse_header"] = ("r", """requires old(self).decoder.wf(), old(self).decoder.limit is None,
    ensures %s
        final(self).decoder.wf(), final(self).decoder.limit is None, final(self).inst_index == old(self).inst_index,
        r matches Err(s) ==> !is_consumer_state(s),
        ({ let b = old(self).decoder.bytes@; let o = old(self).decoder.offset as int;
           // incomplete header <=> fewer than five words; wrong magic: byte-swapped or not
           &&& (o + 20 > b.len() ==> r is Err && (r->Err_0) is HeaderIncomplete)
           &&& (o + 20 <= b.len() ==> (
                   (decoder::le32(b, o) == spirv::MAGIC_NUMBER ==> (r is Ok && final(self).decoder.offset == o + 20
                        && (r->Ok_0).bound == decoder::le32(b, o + 12)
                        && (r->Ok_0).version == dr::version::version_word(((decoder::le32(b, o + 4) >> 16) & 0xff) as u8, ((decoder::le32(b, o + 4) >> 8) & 0xff) as u8)))
                && (decoder::le32(b, o) == 0x03022307u32 ==> r == Err::<dr::ModuleHeader, State>(State::EndiannessUnsupported))
                && ((decoder::le32(b, o) != spirv::MAGIC_NUMBER && decoder::le32(b, o) != 0x03022307u32) ==> r == Err::<dr::ModuleHeader, State>(State::HeaderIncorrect)))) }),""" % FRAME)
C["parse_literal"] = ("r", """requires old(self).decoder.wf(), old(self).decoder.limit is Some,
    ensures %s
        final(self).decoder.wf(), final(self).inst_index == old(self).inst_index,
        final(self).decoder.limit matches Some(l2) && l2 <= old(self).decoder.limit->0,
        final(self).decoder.offset >= old(self).decoder.offset,
        final(self).decoder.offset - old(self).decoder.offset <= 4 * (old(self).decoder.limit->0 - final(self).decoder.limit->0),
        // C10: the number of words is decided solely by the tracked type of `type_id`
        ({ let t = if old(self).type_tracker.view().contains_key(type_id) { Some(old(self).type_tracker.view()[type_id]) } else { None::<Type> };
           let o = old(self).decoder.offset as int; let b = old(self).decoder.bytes@;
           &&& (literal_words(t) is None ==> (r == Err::<dr::Operand, State>(State::TypeUnsupported(old(self).decoder.offset, old(self).inst_index))
                    && final(self).decoder.offset == old(self).decoder.offset && final(self).decoder.limit == old(self).decoder.limit))
           &&& (r matches Ok(op) ==> (literal_words(t) matches Some(n)
                    && final(self).decoder.offset == o + 4 * n && final(self).decoder.limit == Some((old(self).decoder.limit->0 - n) as usize)
                    && (n == 1 ==> op == dr::Operand::LiteralBit32(decoder::le32(b, o)))
                    && (n == 2 ==> op == dr::Operand::LiteralBit64(((decoder::le32(b, o + 4) as u64) << 32) | (decoder::le32(b, o) as u64)))))
           &&& (r matches Err(s) ==> (!is_consumer_state(s) && (s is TypeUnsupported || s is OperandError)
                    && (s is TypeUnsupported ==> s == State::TypeUnsupported(old(self).decoder.offset, old(self).inst_index)))) }),""" % FRAME)
# generic operand parser: exact accounting on success; never called with the five special kinds
OPERAND = """requires old(self).decoder.wf(), old(self).decoder.limit is Some%(REQ)s,
    ensures %(FRAME)s
        final(self).decoder.wf(), final(self).inst_index == old(self).inst_index,
        final(self).decoder.limit matches Some(l2) && l2 <= old(self).decoder.limit->0,
        final(self).decoder.offset >= old(self).decoder.offset,
        final(self).decoder.offset - old(self).decoder.offset <= 4 * (old(self).decoder.limit->0 - final(self).decoder.limit->0),
        r is Ok ==> final(self).decoder.offset - old(self).decoder.offset == 4 * (old(self).decoder.limit->0 - final(self).decoder.limit->0),
        r matches Err(s) ==> s is OperandError,%(ENS)s"""
C["parse_operand"] = ("r", OPERAND % {"REQ": ", generic_kind(kind)", "FRAME": FRAME, "ENS": """
        // at least one word per operand; an IdRef operand is exactly one IdRef (what OpSwitch's selector lookup relies on)
        r matches Ok(v) ==> (v@.len() >= 1 && final(self).decoder.offset > old(self).decoder.offset
            && (kind == GOpKind::IdRef ==> (v@.len() == 1 && v@[0] is IdRef))),
        // C03: one concrete operand of the variant(s) the kind dictates
        r matches Ok(v) ==> chunk_ok_n(kind, v@, 0, v@.len() as int),"""})
# C01/C02 value level, proved per arm (R26): each operand is the word it was read from (first word of the chunk; both words of a pair)
ARM_VAL = """requires old(self).decoder.wf(), old(self).decoder.limit is Some,
    ensures %(FRAME)s
        final(self).decoder.wf(), final(self).inst_index == old(self).inst_index,
        r matches Ok(v) ==> (chunk_ok_n(GOpKind::%%(K)s, v@, 0, v@.len() as int)
            && chunk_val(GOpKind::%%(K)s, v@, old(self).decoder.bytes@, old(self).decoder.offset as int)),""" % {"FRAME": FRAME}
ARGS = OPERAND % {"REQ": "", "FRAME": FRAME, "ENS": ""}
C["parse_spec_constant_op"] = ("r", """requires old(self).decoder.wf(), old(self).decoder.limit is Some,
    ensures %s
        final(self).decoder.wf(), final(self).inst_index == old(self).inst_index,
        final(self).decoder.limit matches Some(l2) && l2 <= old(self).decoder.limit->0,
        final(self).decoder.offset >= old(self).decoder.offset,
        final(self).decoder.offset - old(self).decoder.offset <= 4 * (old(self).decoder.limit->0 - final(self).decoder.limit->0),
        r is Ok ==> (final(self).decoder.offset - old(self).decoder.offset == 4 * (old(self).decoder.limit->0 - final(self).decoder.limit->0)
            && final(self).decoder.offset > old(self).decoder.offset),
        r matches Ok(v) ==> (v@.len() >= 1 && v@[0] is LiteralSpecConstantOpInteger),
        // C03: the embedded opcode number is the WHOLE first word: a word above 16 bits is not an opcode
        r is Ok ==> decoder::le32(old(self).decoder.bytes@, old(self).decoder.offset as int) <= 0xffff,
        // C03/C02: the embedded opcode is a declared one and what follows it conforms to that opcode's row
        // (required operands present, an optional one possibly absent, a variadic one up to the last word)
        r matches Ok(v) ==> (v@[0] matches dr::Operand::LiteralSpecConstantOpInteger(op)
            && nested_ok(op, v@, 1, v@.len() as int, final(self).decoder.limit == Some(0usize))),
        r matches Err(s) ==> ((s is OperandError || s is SpecConstantOpIntegerIncorrect)
            && (s is SpecConstantOpIntegerIncorrect ==> (err_index(s) == Some(old(self).inst_index as int)
                && old(self).decoder.offset <= err_offset(s)->0 <= final(self).decoder.offset))),""" % FRAME)
C["parse_operands"] = ("r", """requires old(self).decoder.wf(), old(self).decoder.limit is Some,
        *grammar == grammar::row_of(grammar.opcode),
    ensures %s
        final(self).decoder.wf(), final(self).inst_index == old(self).inst_index,
        final(self).decoder.limit matches Some(l2) && l2 <= old(self).decoder.limit->0,
        final(self).decoder.offset >= old(self).decoder.offset,
        final(self).decoder.offset - old(self).decoder.offset <= 4 * (old(self).decoder.limit->0 - final(self).decoder.limit->0),
        r is Ok ==> final(self).decoder.offset - old(self).decoder.offset == 4 * (old(self).decoder.limit->0 - final(self).decoder.limit->0),
        // the delivered instruction is of the grammar entry's opcode
        r matches Ok(inst) ==> (inst.class.opcode == grammar.opcode && *inst.class == grammar::row_of(grammar.opcode)),
        // C01/C02: result type and result id are the first word(s) of the operand words
        r matches Ok(inst) ==> ((inst.result_type matches Some(t) ==> t == decoder::le32(old(self).decoder.bytes@, old(self).decoder.offset as int))
            && (inst.result_id matches Some(i) ==> i == decoder::le32(old(self).decoder.bytes@, old(self).decoder.offset + (if inst.result_type is Some { 4int } else { 0int })))),
        // C03: result type / result id presence and operand structure are those of the row
        r matches Ok(inst) ==> conforms(grammar.operands@, inst.result_type, inst.result_id, inst.operands@, final(self).decoder.limit == Some(0usize)),
        r matches Err(s) ==> (!is_consumer_state(s) && !(s is Complete) && !(s is WordCountZero) && !(s is OpcodeUnknown) && !(s is OperandExceeded)
            && (err_index(s) matches Some(i) ==> i == old(self).inst_index)
            && (err_offset(s) matches Some(o) ==> old(self).decoder.offset <= o <= old(self).decoder.offset + 4 * (old(self).decoder.limit->0))),""" % FRAME)
C["parse_inst"] = ("r", """requires old(self).decoder.wf(), old(self).decoder.limit is None, old(self).inst_index < usize::MAX,
    ensures %s
        final(self).decoder.wf(),
        // the instruction number is the 1-based count of parse_inst calls
        final(self).inst_index == old(self).inst_index + 1,
        r matches Err(s) ==> !is_consumer_state(s),
        ({ let b = old(self).decoder.bytes@; let o = old(self).decoder.offset as int;
           // end of stream: fewer than four bytes left (trailing 1-3 bytes are not an instruction)
           &&& ((r matches Err(s) && s is Complete) <==> o + 4 > b.len())
           &&& (o + 4 <= b.len() ==> ({ let w = decoder::le32(b, o); let wc = (w >> 16) as u16; let opc = (w & 0xffff) as u16;
                  // zero word count / unknown opcode: offset of the instruction, its 1-based number
                  &&& (wc == 0 ==> r == Err::<dr::Instruction, State>(State::WordCountZero(old(self).decoder.offset, final(self).inst_index)))
                  &&& ((wc != 0 && !spirv::declared_Op(opc as u32)) ==> r == Err::<dr::Instruction, State>(State::OpcodeUnknown(old(self).decoder.offset, final(self).inst_index, opc)))
                  // success: exactly the declared extent was consumed (no word left over), the limit is cleared, progress
                  &&& (r matches Ok(inst) ==> (wc != 0 && spirv::declared_Op(opc as u32) && (inst.class.opcode as u32) == opc as u32
                         && final(self).decoder.offset == o + 4 * wc && final(self).decoder.offset > old(self).decoder.offset
                         && final(self).decoder.limit is None
                         // C03: the delivered instruction conforms to its opcode's row, every word of the extent used
                         && conforms(grammar::row_operands(inst.class.opcode), inst.result_type, inst.result_id, inst.operands@, true)))
                  // every positioned error names this instruction and an offset inside its declared extent
                  &&& (r matches Err(s) ==> ((err_index(s) matches Some(i) ==> i == final(self).inst_index)
                         && (err_offset(s) matches Some(eo) ==> o <= eo <= o + 4 * wc))) })) }),""" % FRAME)


def emit_param_specs(g):
    """C17: expected operand variants after a parameterised enumerant / mask value, generated from the
    reflection side (dr::Operand::additional_operands, lifted by units/lift_reflect.py); the real
    parse_*_arguments functions are proved against it (sequence in ascending bit order for masks)."""
    from .lift_reflect import lift
    from .assemble import operand_variants
    from .kani_masks import mask_decls
    variants = [v for v, _ in operand_variants()]
    idx = {v: i for i, v in enumerate(variants)}

    def tag_of_kind(k):
        v = {"LiteralInteger": "LiteralBit32", "LiteralFloat": "LiteralBit32"}.get(k, k)
        if v not in idx:
            raise Lost("C17: no operand variant for parameter kind %s" % k)
        return idx[v]
    g.raw("// variant index of an operand (declaration order of dr::Operand, O1)\npub open spec fn tag(op: dr::Operand) -> int {\n    match op {\n%s\n    }\n}"
          % "\n".join("        dr::Operand::%s(_) => %d," % (v, i) for i, v in enumerate(variants)))
    g.raw("pub open spec fn tags_of(s: Seq<dr::Operand>) -> Seq<int> { Seq::new(s.len(), |i: int| tag(s[i])) }")
    enums, masks = lift()
    names = {}
    for K, table in enums.items():
        fn = "param_tags_%s" % K
        names[K] = fn
        g.raw("// C17: parameters of each %s enumerant as reported by additional_operands (lifted), as operand variants\n"
              "pub open spec fn %s(v: spirv::%s) -> Seq<int> {\n    match v {\n%s\n        _ => Seq::empty(),\n    }\n}" % (
                  K, fn, K, "\n".join("        spirv::%s::%s => seq![%s]," % (K, e, ", ".join("%dint" % tag_of_kind(k) for k, q in ops))
                                       for e, ops in table.items() if ops)))
    decls = dict(mask_decls())
    for K, groups in masks.items():
        fn = "param_tags_%s" % K
        names[K] = fn
        flagops = []
        for flags, ops in groups:
            for fl in flags:
                flagops.append((dict(decls[K])[fl], fl, ops))
        flagops.sort()
        parts = ["(if v.bits_ & %du32 == %du32 { seq![%s] } else { Seq::<int>::empty() }) /* %s */" % (
            bit, bit, ", ".join("%dint" % tag_of_kind(k) for k, q in ops), fl) for bit, fl, ops in flagops]
        g.raw("// C17: parameters of a %s value in ascending bit order (flag -> parameters from additional_operands, lifted)\n"
              "pub open spec fn %s(v: spirv::%s) -> Seq<int> {\n    %s\n}" % (K, fn, K, "\n    + ".join(parts) if parts else "Seq::empty()"))
    return names


def R22g(t):
    return re.sub(r"(self\.decoder\.\w+\(\))\?", r"conv(\1)?", t)


def emit_tracker_stub(g):
    tsrc = Source.get(TRACKER)
    gt = Gen("tmp")
    gt.raw("#[derive(Clone, Copy, PartialEq, Eq)]")
    gt.emit(Piece(tsrc.find("enum", "Type")), name="binary::tracker::Type", under_contract=False)
    g.raw(TRACKER_STUB % {"TYPE": "\n".join(gt.lines)})
    g.items.append(dict(gt.items[0], gen_start=0, gen_end=0))


def build(tier="quick", must_fail=False):
    g = Gen(NAME if not must_fail else NAME + "_mustfail")
    src = Source.get(FILE)
    gsrc = Source.get(GEN)
    g.raw(HEADER)
    g.raw("verus! {")
    lib_spirv.emit(g, with_alias=True, with_num=True)
    lib_dr.emit_grammar(g, with_reflect=False)
    lib_dr.emit_dr(g, with_new=True)
    g.raw("pub mod binary {\nuse vstd::prelude::*;\nuse crate::spirv;\nuse crate::dr;\nuse crate::grammar;\nuse std::result;")
    # the number of an enum value, hidden from the big queries (`v as u32` on a large enum is expensive for the solver):
    # num_T(v) is `v as u32` by definition; the decoder contracts and the encoding spec are stated through it here
    ENUM_NUM = lambda T: "crate::spirv::num_%s(v)" % T
    decoder_unit.emit_stubs(g, enum_num=ENUM_NUM)
    emit_tracker_stub(g)
    g.raw("pub mod parser {")
    g.raw("use vstd::prelude::*;\nuse crate::spirv;\nuse crate::dr;\nuse crate::grammar;\nuse std::result;\n"
          "use super::{decoder, tracker::{Type, TypeTracker}, DecodeError};\n"
          "use crate::grammar::CoreInstructionTable as GInstTable;\nuse crate::grammar::OperandKind as GOpKind;\n"
          "use crate::grammar::OperandQuantifier as GOpCount;\nuse crate::dr::version;")
    g.emit(Piece(src.find("type", "GInstRef")), name="binary::parser::GInstRef", under_contract=False)
    g.emit(Piece(src.find("const", "WORD_NUM_BYTES")), name="binary::parser::WORD_NUM_BYTES", under_contract=False)
    g.emit(Piece(src.find("const", "HEADER_NUM_WORDS")), name="binary::parser::HEADER_NUM_WORDS", under_contract=False)
    g.raw("// R3: `Box<dyn error::Error + Send + Sync>`\npub struct BoxedError { pub id: Ghost<int> }")
    for en in ("State", "Action"):
        p = Piece(src.find("enum", en))
        p.sub(r"Box<dyn error::Error \+ Send \+ Sync>", "BoxedError", "R3", count=1)
        g.emit(p, name="binary::parser::" + en, under_contract=False)
    g.emit(Piece(src.find("type", "Result")), name="binary::parser::Result", under_contract=False)
    # impl From<DecodeError> for State: the real impl (`?` on decoder results converts through it)
    fr = [i for i in src.find_all("impl") if i.impl_of == "State" and i.impl_trait == "From"]
    if len(fr) != 1:
        raise Lost("impl From<DecodeError> for State not found")
    fp = Piece(fr[0])
    g.raw("// spec of the conversion `?` applies to decoder errors; the real impl below is checked against it\n"
          "impl vstd::std_specs::convert::FromSpecImpl<DecodeError> for State {\n"
          "    open spec fn obeys_from_spec() -> bool { true }\n"
          "    open spec fn from_spec(err: DecodeError) -> Self { State::OperandError(err) }\n}")
    g.emit(fp, name="binary::parser::State::from(DecodeError)")
    g.raw(parser_protocol.SPEC.split("// l = the consumer's log")[0].replace("pub open spec fn is_consumer_state(s: State) -> bool { s is ConsumerStopRequested || s is ConsumerError }", ""))
    g.raw(SPEC)
    param_fns = emit_param_specs(g)
    from . import parser_conf
    from .assemble import operand_variants
    kinds = [n for n, _ in enum_variants(Source.get("rspirv/grammar/autogen_table.rs").find("enum", "OperandKind"))]
    g.raw(parser_conf.spec_text(kinds, [v for v, _ in operand_variants()]))
    # C01/C02 value level: the encoding spec of unit assemble (generated from the payload types of dr::Operand) and what
    # "the operand just parsed re-encodes to the word(s) it was read from" means per kind
    from . import assemble as assemble_unit
    # `first_word(op)` is generated by unit assemble, which proves enc_operand(op) == [first_word(op)] (+ high half for 64 bits)
    g.raw(assemble_unit.first_word_spec(enum_num=ENUM_NUM))
    g.raw("""// the operand is a one-word operand whose word is the word at byte offset o
pub open spec fn word_ok(op: dr::Operand, b: Seq<u8>, o: int) -> bool { first_word(op) == decoder::le32(b, o) }
// C01/C02: the parameters of an enumerant are one-word operands, each the word it was read from
pub open spec fn args_val(v: Seq<dr::Operand>, b: Seq<u8>, o: int) -> bool { forall|i: int| 0 <= i < v.len() ==> word_ok(#[trigger] v[i], b, o + 4 * i) }
// C01/C02: value of the chunk parse_operand returns for a kind, read at offset o (strings: see Decoder::string, C11)
pub open spec fn chunk_val(k: GOpKind, v: Seq<dr::Operand>, b: Seq<u8>, o: int) -> bool {
    k != GOpKind::LiteralString ==> (v.len() >= 1 && word_ok(v[0], b, o)
        && ((k == GOpKind::PairIdRefLiteralInteger || k == GOpKind::PairIdRefIdRef) ==> (v.len() == 2 && word_ok(v[1], b, o + 4))))
}""")
    # Consumer trait with the ghost log (same text as unit parser_protocol) — parse_* never touch it
    tp = Piece(src.find("trait", "Consumer"))
    for name, ens in (("initialize", "final(self).log() == old(self).log().push(Event::Init(ans_of(a)))"),
                      ("finalize", "final(self).log() == old(self).log().push(Event::Finalize(ans_of(a)))"),
                      ("consume_header", "final(self).log() == old(self).log().push(Event::Header(module, ans_of(a)))"),
                      ("consume_instruction", "final(self).log() == old(self).log().push(Event::Inst(inst, ans_of(a)))")):
        tp.sub(r"(fn %s\([^)]*\)) -> Action;" % name, r"\1 -> (a: Action)\n        ensures %s;" % ens, "contract", count=1)
    tp.insert_at("{", "\n    spec fn log(&self) -> Seq<Event>;", where="after", nth=1, tag="ghost")
    g.emit(tp, name="binary::parser::Consumer", under_contract=False)
    st = Piece(src.find("struct", "Parser"))
    st.sub(r"(\n\s*)(decoder|consumer|type_tracker|inst_index):", r"\1pub \2:", "R15", count=4)
    g.emit(st, name="binary::parser::Parser", under_contract=False)

    def emit_fn(f, rname, contract, edit=None, static=False, r22=True):
        p = Piece(f)
        if rname:
            p.name_result(rname)
        # R22: `?` on a decoder result converts the error with From<DecodeError> for State; the installed Verus
        # gives that implicit conversion no specification, so it is made explicit through `conv`, whose body
        # calls the real `State::from`
        if r22:
            p.sub(r"(self\.decoder\.\w+\(\))\?", r"conv(\1)?", "R22", required=False)
        if not f.core_text.startswith("pub"):
            p.sub(r"^fn ", "pub fn ", "R15", count=1)
        if edit:
            edit(p)
        p.add_contract("    " + contract)
        g.contract_clauses += count_clauses(contract)
        if f.name in BIG:
            g.raw("#[verifier::rlimit(400)]\n#[verifier::spinoff_prover]")
        g.emit(p, name="binary::parser::Parser::" + f.name)

    def header_edit(p):
        p.insert_at("{", " proof { magic_swapped(); } ", where="after", nth=1, tag="ghost")
        # R18 not needed here; swap_bytes has no vstd spec: rewrite the comparison constant (R6: byte swap of the magic)
        p.sub(r"spirv::MAGIC_NUMBER\.swap_bytes\(\)", "swap_bytes_u32(spirv::MAGIC_NUMBER)", "R6", count=1)

    def operands_edit(p):
        p.sub(r"assert_eq!\(grammar\.opcode, spirv::Op::Switch\);", "assert!(grammar.opcode == spirv::Op::Switch);", "R18", count=1)
        p.sub(r"rtype\.expect\(\s*\"[^\"]*\"\s*,?\s*\)", "expect_some(rtype)", "R10", count=1, flags=re.S)
        p.sub(r"_ => panic!\(\"internal error: OpSwitch selector should be IdRef\"\),", "_ => unreachable_panic(),", "R10", count=1)
        # R25: the temporaries of the two `append(&mut ..?)` calls get names so that ghost code can refer to them
        p.sub(r"coperands\.append\(&mut self\.parse_spec_constant_op\(\)\?\)",
              "{ let mut sc = self.parse_spec_constant_op()?; proof { match sc@[0] { dr::Operand::LiteralSpecConstantOpInteger(op) => { "
              "spec_op_chunk(op, coperands@, sc@, self.decoder.limit == Some(0usize)); } _ => {} } } coperands.append(&mut sc) }", "R25", count=1)
        p.sub(r"_ => coperands\.append\(&mut self\.parse_operand\(loperand\.kind\)\?\),",
              "_ => { let mut gv = self.parse_operand(loperand.kind)?; proof { chunk_shift_n(loperand.kind, coperands@, gv@); } coperands.append(&mut gv) }", "R25", count=1)
        # ghost bookkeeping of the match trace at the two places the logical index moves on / stays
        p.sub(r"GOpCount::One \| GOpCount::ZeroOrOne => loperand_index \+= 1,",
              """GOpCount::One | GOpCount::ZeroOrOne => {
                        proof {
                            if is_res(loperand.kind) { skip_t(grammar.operands@, coperands@, 0, ks, ends, pos, loperand_index as int, false); pos = pos.push(-1); }
                            else { push_advance_t(grammar.operands@, c0, coperands@, 0, ks, ends, pos, loperand_index as int, false);
                                   pos = pos.push(ks.len() as int); ks = ks.push(loperand_index as int); ends = ends.push(coperands@.len() as int); }
                        }
                        loperand_index += 1 }""", "ghost", count=1)
        p.sub(r"GOpCount::ZeroOrMore => continue,",
              """GOpCount::ZeroOrMore => {
                        proof { push_stay_t(grammar.operands@, c0, coperands@, 0, ks, ends, pos, loperand_index as int, false);
                                ks = ks.push(loperand_index as int); ends = ends.push(coperands@.len() as int); }
                        continue }""", "ghost", count=1)
        p.sub(r"Ok\(dr::Instruction::new\(grammar\.opcode, rtype, rid, coperands\)\)",
              """proof {
            let ex = self.decoder.limit == Some(0usize);
            conforms_weaken(grammar.operands@, coperands@, 0, ks, ends, pos, loperand_index as int, false, ex);
            wf_ids_at(grammar.operands@, 0, 0); wf_ids_at(grammar.operands@, 0, 1);
            assert(conforms_t(grammar.operands@, coperands@, 0, ks, ends, pos, loperand_index as int, ex) && end_of(0, ends) == coperands@.len()
                && stop_ok(grammar.operands@, loperand_index as int, ex));
        }
        Ok(dr::Instruction::new(grammar.opcode, rtype, rid, coperands))""", "ghost", count=1)
        p.insert_at("{", """
        proof { grammar::row_shape(grammar.opcode); }
        let ghost o0 = self.decoder.offset as int;
        let ghost l0 = self.decoder.limit->0 as int;
        let ghost mut ks: Seq<int> = Seq::empty();
        let ghost mut ends: Seq<int> = Seq::empty();
        let ghost mut pos: Seq<int> = Seq::empty();
""", where="after", nth=1, tag="ghost")
        p.add_loop_contract(1, """            invariant
                loperand_index <= grammar.operands@.len(),
                *grammar == grammar::row_of(grammar.opcode),
                grammar::special_from(grammar.operands@, grammar.opcode, 0),
                self.consumer.log() == old(self).consumer.log(), self.decoder.bytes == old(self).decoder.bytes,
                self.type_tracker == old(self).type_tracker, self.inst_index == old(self).inst_index,
                acct(self.decoder, o0, l0), o0 == old(self).decoder.offset, l0 == old(self).decoder.limit->0,
                // what the special kinds rely on: once past index 0, a leading result type has been decoded and a leading
                // IdRef is the first concrete operand
                (loperand_index >= 1 && grammar.operands@[0].kind == GOpKind::IdResultType) ==> rtype is Some,
                (loperand_index >= 1 && grammar.operands@[0].kind == GOpKind::IdRef && grammar.operands@[0].quantifier == GOpCount::One)
                    ==> (coperands@.len() >= 1 && coperands@[0] is IdRef),
                (loperand_index == 0 && grammar.operands@.len() > 0 && grammar.operands@[0].quantifier == GOpCount::One) ==> coperands@.len() == 0,
                // C03: the operands parsed so far are chunks following the row up to loperand_index
                conforms_t(grammar.operands@, coperands@, 0, ks, ends, pos, loperand_index as int, false),
                end_of(0, ends) == coperands@.len(),
                grammar::wf_ids(grammar.operands@, 0),
                rtype is Some <==> (loperand_index >= 1 && grammar.operands@[0].kind == GOpKind::IdResultType),
                rid is Some <==> ((loperand_index >= 1 && grammar.operands@[0].kind == GOpKind::IdResult)
                    || (loperand_index >= 2 && grammar.operands@[1].kind == GOpKind::IdResult)),
                forall|j: int| 0 <= j < loperand_index ==> (#[trigger] grammar.operands@[j]).quantifier != GOpCount::ZeroOrMore,
                rtype matches Some(t) ==> t == decoder::le32(self.decoder.bytes@, o0),
                rid matches Some(i) ==> i == decoder::le32(self.decoder.bytes@, o0 + (if rtype is Some { 4int } else { 0int })),
                (rtype is None && rid is None && coperands@.len() == 0) ==> self.decoder.offset == o0,
                (rtype is Some && rid is None && coperands@.len() == 0) ==> self.decoder.offset == o0 + 4,
                (loperand_index == 1 && grammar.operands@.len() > 1 && grammar.operands@[0].kind == GOpKind::IdResultType
                    && grammar.operands@[1].kind == GOpKind::IdResult) ==> coperands@.len() == 0,
            ensures
                stop_ok(grammar.operands@, loperand_index as int, self.decoder.limit == Some(0usize)),
            decreases grammar.operands@.len() - loperand_index, self.decoder.limit->0,""")
        p.insert_at("let has_more_coperands = !self.decoder.limit_reached();",
                    "\n            proof { grammar::special_at(grammar.operands@, grammar.opcode, 0, loperand_index as int); wf_ids_at(grammar.operands@, 0, loperand_index as int); }"
                    "\n            let ghost c0 = coperands@;",
                    where="after", nth=1, tag="ghost")
        # cut point between the kind match and the quantifier match: what the kind match established
        p.insert_at("match loperand.quantifier {", """proof {
                    assert(is_res(loperand.kind) ==> coperands@ == c0);
                    assert(!is_res(loperand.kind) ==> (ext(c0, coperands@) && chunk_ok_t(loperand.kind, coperands@, c0.len() as int, coperands@.len() as int)));
                }
                """, where="before", nth=1, tag="ghost")

    def spec_edit(p):
        ROW = "g.operands@"
        GH = "let ghost c0 = operands@; let ghost ex0 = self.decoder.limit == Some(0usize); let mut gv = self.parse_operand(kind)?; " \
             "proof { chunk_shift_n(kind, c0, gv@); } operands.append(&mut gv); "
        ADV = GH + "proof { let ex1 = self.decoder.limit == Some(0usize); conforms_weaken(%s, c0, 1, ks, ends, pos, iter.index@ as int, ex0, ex1); " \
                   "push_advance_n(%s, c0, operands@, 1, ks, ends, pos, iter.index@ as int, ex1); " \
                   "pos = pos.push(ks.len() as int); ks = ks.push(iter.index@ as int); ends = ends.push(operands@.len() as int); }" % (ROW, ROW)
        INV = """
                    *g == grammar::row_of(g.opcode),
                    self.consumer.log() == old(self).consumer.log(), self.decoder.bytes == old(self).decoder.bytes,
                    self.type_tracker == old(self).type_tracker, self.inst_index == old(self).inst_index,
                    acct(self.decoder, old(self).decoder.offset as int, old(self).decoder.limit->0 as int),
                    self.decoder.offset > old(self).decoder.offset,
                    operands@.len() >= 1 && operands@[0] == dr::Operand::LiteralSpecConstantOpInteger(g.opcode),
                    grammar::wf_ids(g.operands@, 0), grammar::wf_quant(g.operands@, 0, false),
                    end_of(1, ends) == operands@.len(),"""
        LOOP2 = """
                                invariant""" + INV + """
                                    iter.index@ < g.operands@.len(), *loperand == g.operands@[iter.index@ as int], kind == loperand.kind, generic_kind(kind),
                                    loperand.quantifier == GOpCount::ZeroOrMore,
                                    pos.len() == iter.index@,
                                    conforms_n(g.operands@, operands@, 1, ks, ends, pos, iter.index@ as int, self.decoder.limit == Some(0usize)),
                                    forall|j: int| 0 <= j < iter.index@ ==> ((#[trigger] g.operands@[j]).quantifier == GOpCount::ZeroOrMore ==> self.decoder.limit == Some(0usize)),
                                decreases self.decoder.limit->0,
                            """
        if "match loperand.quantifier" not in p.text:
            # shape without a quantifier match: every logical operand is parsed exactly once
            p.sub(r"kind => operands\.append\(&mut self\.parse_operand\(kind\)\?\),",
                  "kind => { " + GH + "proof { let ex1 = self.decoder.limit == Some(0usize); conforms_weaken(%s, c0, 1, ks, ends, pos, iter.index@ as int, ex0, ex1); "
                  "if loperand.quantifier == GOpCount::ZeroOrMore { push_stay_n(%s, c0, operands@, 1, ks, ends, pos, iter.index@ as int, ex1); "
                  "ks = ks.push(iter.index@ as int); ends = ends.push(operands@.len() as int); "
                  "leave_variadic_n(%s, operands@, 1, ks, ends, pos, iter.index@ as int, ex1); pos = pos.push(ks.len() - 1); } else { "
                  "push_advance_n(%s, c0, operands@, 1, ks, ends, pos, iter.index@ as int, ex1); "
                  "pos = pos.push(ks.len() as int); ks = ks.push(iter.index@ as int); ends = ends.push(operands@.len() as int); } } }" % (ROW, ROW, ROW, ROW),
                  "R25+ghost", count=1)
        NEW = "match loperand.quantifier" in p.text
        # R25: temporaries named; ghost bookkeeping of the match trace
        p.sub(r"GOpCount::One => operands\.append\(&mut self\.parse_operand\(kind\)\?\),", "GOpCount::One => { " + ADV + " }", "R25+ghost", count=(1 if NEW else None), required=NEW)
        p.sub(r"if !self\.decoder\.limit_reached\(\) \{\s*operands\.append\(&mut self\.parse_operand\(kind\)\?\)\s*\}",
              "if !self.decoder.limit_reached() { " + ADV + " } proof { if pos.len() == iter.index@ { "
              "skip_n(%s, operands@, 1, ks, ends, pos, iter.index@ as int, true); pos = pos.push(-1); } }" % ROW, "R25+ghost", count=(1 if NEW else None), required=NEW)
        p.sub(r"while !self\.decoder\.limit_reached\(\) \{\s*operands\.append\(&mut self\.parse_operand\(kind\)\?\)\s*\}",
              "while !self.decoder.limit_reached()" + LOOP2.replace("\\", "\\\\") + "{ " + GH +
              "proof { let ex1 = self.decoder.limit == Some(0usize); conforms_weaken(%s, c0, 1, ks, ends, pos, iter.index@ as int, ex0, ex1); "
              "push_stay_n(%s, c0, operands@, 1, ks, ends, pos, iter.index@ as int, ex1); ks = ks.push(iter.index@ as int); ends = ends.push(operands@.len() as int); } } "
              "proof { leave_variadic_n(%s, operands@, 1, ks, ends, pos, iter.index@ as int, true); "
              "pos = pos.push(if ks.len() > 0 && ks[ks.len() - 1] == iter.index@ { ks.len() - 1 } else { -1 }); }" % (ROW, ROW, ROW), "R25+ghost", count=(1 if NEW else None), required=NEW)
        p.sub(r"GOpKind::IdResultType \| GOpKind::IdResult => \{\}",
              "GOpKind::IdResultType | GOpKind::IdResult => { proof { wf_ids_at(g.operands@, 0, iter.index@ as int); skip_n(%s, operands@, 1, ks, ends, pos, iter.index@ as int, self.decoder.limit == Some(0usize)); pos = pos.push(-1); } }" % ROW,
              "ghost", count=1)
        p.sub(r"(\n\s*)Ok\(operands\)", r"""\1proof { assert(conforms_n(g.operands@, operands@, 1, ks, ends, pos, g.operands@.len() as int, self.decoder.limit == Some(0usize))
                && end_of(1, ends) == operands@.len() && stop_ok(g.operands@, g.operands@.len() as int, self.decoder.limit == Some(0usize))); }\1Ok(operands)""", "ghost", count=1)
        p.add_loop_contract(1, """                invariant""" + INV + """
                    // C03: what follows the embedded opcode are chunks following its row up to the current logical operand
                    pos.len() == iter.index@,
                    conforms_n(g.operands@, operands@, 1, ks, ends, pos, iter.index@ as int, self.decoder.limit == Some(0usize)),
                    forall|j: int| 0 <= j < iter.index@ ==> ((#[trigger] g.operands@[j]).quantifier == GOpCount::ZeroOrMore ==> self.decoder.limit == Some(0usize)),""")
        p.insert_at("for loperand in", "let ghost mut ks: Seq<int> = Seq::empty();\n            let ghost mut ends: Seq<int> = Seq::empty();\n            "
                    "let ghost mut pos: Seq<int> = Seq::empty();\n            proof { grammar::row_shape(g.opcode); }\n            ", where="before", nth=1, tag="ghost")
        p.sub(r"for loperand in g\.operands", "for loperand in iter: g.operands", "G1", count=1)

    g.raw("""// R6: u32::swap_bytes (std); validated by Kani for all u32 in unit kani_std
#[verifier::external_body]
pub fn swap_bytes_u32(w: u32) -> (r: u32)
    ensures r == ((w & 0xff) << 24) | ((w & 0xff00) << 8) | ((w >> 8) & 0xff00) | (w >> 24),
{ w.swap_bytes() }
pub proof fn magic_swapped() ensures (((0x07230203u32 & 0xff) << 24) | ((0x07230203u32 & 0xff00) << 8) | ((0x07230203u32 >> 8) & 0xff00) | (0x07230203u32 >> 24)) == 0x03022307u32 { assert((((0x07230203u32 & 0xff) << 24) | ((0x07230203u32 & 0xff00) << 8) | ((0x07230203u32 >> 8) & 0xff00) | (0x07230203u32 >> 24)) == 0x03022307u32) by(bit_vector); }
// R22: the desugaring of `?` for decoder results (Err(e) => return Err(From::from(e)))
pub fn conv<T>(r: decoder::Result<T>) -> (o: Result<T>)
    ensures (r matches Ok(v) ==> o == Ok::<T, State>(v)), (r matches Err(e) ==> o == Err::<T, State>(State::OperandError(e))),
{ match r { Ok(v) => Ok(v), Err(e) => Err(State::from(e)) } }
// `.expect(msg)` on an Option / `panic!(..)`: std panics exactly when reached with None / when reached
pub fn expect_some<T>(o: Option<T>) -> (r: T) requires o is Some, ensures Some(r) == o { o.unwrap() }
#[verifier::external_body]
pub fn unreachable_panic() -> (r: u32) requires false { unimplemented!() }
""")
    g.raw("impl<'c, 'd> Parser<'c, 'd> {")
    names = ["split_into_word_count_and_opcode", "parse_header", "parse_inst", "parse_literal", "parse_spec_constant_op", "parse_operands"]
    if must_fail:
        names = ["split_into_word_count_and_opcode", "parse_literal"]
    for n_ in names:
        f = src.find("fn", "Parser::" + n_)
        rn, c = C[n_]
        if must_fail and n_ == "parse_literal":
            c = c.replace("final(self).decoder.wf(),", "final(self).decoder.wf(), false,", 1)
        edit = {"parse_header": header_edit, "parse_operands": operands_edit, "parse_spec_constant_op": spec_edit}.get(n_)
        emit_fn(f, rn, c, edit)
    g.raw("}")
    # generated operand parsers
    g.raw("impl Parser<'_, '_> {")
    gfns = [c for imp in gsrc.find_all("impl", lambda i: i.impl_of == "Parser") for c in imp.children if c.kind == "fn"]
    if not gfns:
        raise Lost("autogen_parse_operand.rs: no functions found")
    for f in gfns:
        if must_fail:
            rn, c = "r", "requires false, ensures true,"
            p = Piece(f)
            p.name_result("r")
            p.sub(r"^fn ", "pub fn ", "R15", count=1)
            for k in range(len(p.loops())):
                p.add_loop_contract(k + 1, "                    decreases 0int,")
            p.add_contract("    requires false,")
            g.emit(p, name="binary::parser::Parser::" + f.name, under_contract=False)
            continue
        if f.name == "parse_operand":
            def edit(p):
                p.sub(r"=> panic!\(\),", "=> { unreachable_panic(); vec![] }", "R10", count=5)
                R22 = lambda t: re.sub(r"(self\.decoder\.\w+\(\))\?", r"conv(\1)?", t)

                def VAL(kind, lit, var):
                    """ghost: unfold the (opaque) encoding of each constructed operand, then state the value fact of the arm"""
                    ctors = re.findall(r"dr::Operand::(\w+)\(", lit)
                    arm_texts.append((kind, "vec![%s]" % R22(lit)))
                    return ""
                    hints = ""
                    return hints + " assert(chunk_val(GOpKind::%s, %s@, old(self).decoder.bytes@, old(self).decoder.offset as int));" % (kind, var)

                def PVAL(kind, text):
                    arm_texts.append((kind, "{%s ops }" % R22(text)))
                    return text

                def PVAL_unused(kind, text):
                    return re.sub(r"(let mut ops = vec!\[dr::Operand::(\w+)\(val\)\];)",
                                  lambda mo: mo.group(1) + " proof { assert(word_ok(ops@[0], old(self).decoder.bytes@, old(self).decoder.offset as int)); }", text)
                # R25 + ghost: the vector built by each arm is named and checked against the arm's kind where it is built,
                # so that a wrong arm fails its own assertion (R22 applied inside the rewritten arms)
                n1 = p.sub(r"GOpKind::(\w+) => vec!\[((?:[^\[\]]|\[[^\]]*\])*?)\],",
                           lambda m: "GOpKind::%s => { let av = vec![%s]; proof { assert(chunk_ok_n(GOpKind::%s, av@, 0, av@.len() as int)); %s } av }," % (
                               m.group(1), R22(m.group(2)), m.group(1), VAL(m.group(1), m.group(2), "av")), "R22+R25+ghost", flags=re.S)
                n2 = p.sub(r"GOpKind::(\w+) => \{\s*vec!\[((?:[^\[\]]|\[[^\]]*\])*?)\]\s*\}",
                           lambda m: "GOpKind::%s => { let av = vec![%s]; proof { assert(chunk_ok_n(GOpKind::%s, av@, 0, av@.len() as int)); %s } av }" % (
                               m.group(1), R22(m.group(2)), m.group(1), VAL(m.group(1), m.group(2), "av")), "R22+R25+ghost", required=False, flags=re.S)
                n3 = p.sub(r"GOpKind::(\w+) => \{(\s*let val = [^;]*;\s*let mut ops = [^;]*;\s*ops\.append\([^;]*;)\s*ops\s*\}",
                           lambda m: "GOpKind::%s => {%s proof { assert(chunk_ok_n(GOpKind::%s, ops@, 0, ops@.len() as int)); %s } ops }" % (
                               m.group(1), R22(PVAL(m.group(1), m.group(2))), m.group(1), ""), "R22+ghost", flags=re.S)
                # the same fact per arm as a tiny lemma over the constructors read off the arm (lifted): decides quickly
                # (and names the arm) when an arm builds the wrong variant, where the in-function assertion only times out
                for m in re.finditer(r"GOpKind::(\w+) => (?:\{\s*)?(?:let val = [^;]*;\s*let mut ops = )?vec!\[((?:[^\[\]]|\[[^\]]*\])*?)\]", p.text, re.S):
                    ctors = re.findall(r"dr::Operand::(\w+)\(", m.group(2))
                    par = "let mut ops" in m.group(0)
                    arm_lemmas.append("pub proof fn parse_operand_arm_%s(av: Seq<dr::Operand>)\n    requires av.len() %s %d, %s,\n    ensures chunk_ok_n(GOpKind::%s, av, 0, av.len() as int),\n{}" % (
                        m.group(1), ">=" if par else "==", len(ctors), ", ".join("av[%d] is %s" % (i, c) for i, c in enumerate(ctors)), m.group(1)))
                kinds_n = len(re.findall(r"GOpKind::\w+ =>", p.text))
                if n1 + n2 + n3 + 5 != kinds_n:
                    raise Lost("parse_operand: %d arms, %d rewritten (+5 panic arms)" % (kinds_n, n1 + n2 + n3))
            arm_lemmas = []
            arm_texts = []
            emit_fn(f, "r", C["parse_operand"][1], edit, r22=False)
            po_line = f.line
        else:
            VALFN = f.name in ARGS_VAL_FNS

            def edit(p, VALFN=VALFN):
                # ghost cut points between the sequential `if` blocks (keeps the query linear)
                cut = "assert(step_inv(*old(self), *self));"
                if VALFN:
                    cut += " assert(args_val(params@, old(self).decoder.bytes@, old(self).decoder.offset as int) && self.decoder.offset == old(self).decoder.offset + 4 * params@.len());"
                p.sub(r"(\n        \})(\n        if )", r"\1 proof { " + cut + r" }\2", "ghost-cut", required=False)
                # a variadic parameter is read by `while !self.decoder.limit_reached() { params.push(..) }`: loop contract
                for k in range(len(p.loops())):
                    p.add_loop_contract(k + 1, """                    invariant step_inv(*old(self), *self), old(self).decoder.wf(), old(self).decoder.limit is Some,
                    decreases self.decoder.limit->0,""")
            K = {"parse_image_operands_arguments": "ImageOperands", "parse_loop_control_arguments": "LoopControl",
                 "parse_memory_access_arguments": "MemoryAccess", "parse_execution_mode_arguments": "ExecutionMode",
                 "parse_decoration_arguments": "Decoration",
                 "parse_tensor_addressing_operands_arguments": "TensorAddressingOperands"}.get(f.name)
            argname = re.search(r"&mut self,\s*(\w+):", f.core_text).group(1)
            extra = ""
            if K in param_fns and f.name in C17_FNS:
                extra = "\n        // C17: exactly the parameters reflection reports for this value, in order\n        r matches Ok(ops) ==> tags_of(ops@) =~= %s(%s)," % (param_fns[K], argname)
            if VALFN:
                extra += ("\n        // C01/C02: every parameter is a one-word operand equal to the word it was read from\n"
                          "        r matches Ok(ops) ==> (args_val(ops@, old(self).decoder.bytes@, old(self).decoder.offset as int)"
                          " && final(self).decoder.offset == old(self).decoder.offset + 4 * ops@.len()),")
            emit_fn(f, "r", ARGS + extra, edit)
    g.raw("}")
    if not must_fail:
        if len(arm_lemmas) < 50:
            raise Lost("parse_operand: only %d arms lifted" % len(arm_lemmas))
        g.raw("// one lemma per arm of parse_operand (constructors lifted from the arm)\n" + "\n".join(arm_lemmas))
        # R26: every arm `GOpKind::K => <expr>` of parse_operand as a function of the parser, real text: value-level contract
        g.raw("impl Parser<'_, '_> {")
        for K, txt in arm_texts:
            if K == "LiteralString":
                continue
            g.raw("// %s:%d arm `GOpKind::%s =>` of parse_operand (R26)\npub fn parse_operand_val_%s(&mut self) -> (r: Result<Vec<dr::Operand>>)\n    %s\n{\n    Ok(%s)\n}" % (
                GEN, po_line, K, K, ARM_VAL % {"K": K}, txt))
            g.contract_clauses += 2
        # the same for the parameter lists of the two value-enum kinds: every arm `spirv::K::E => vec![..]` as a function (R26)
        from .lift_reflect import split_arms
        n_args_val = 0
        for fname in ("parse_execution_mode_arguments", "parse_decoration_arguments"):
            ff = [x for x in gfns if x.name == fname]
            if not ff:
                continue
            tt = ff[0].core_text
            mm = re.search(r"Ok\(match \w+ \{(.*)\}\)\s*\}\s*$", tt, re.S)
            if not mm:
                raise Lost("%s: unexpected shape" % fname)
            for pat, expr in split_arms(mm.group(1)):
                em = re.match(r"^spirv::(\w+)::(\w+)$", pat)
                if not em or "LiteralString" in expr or "while" in expr:
                    continue
                vm = re.match(r"^(?:\{\s*)?(vec!\[.*\])(?:\s*\})?$", expr, re.S)
                if not vm:
                    raise Lost("%s arm %s: unexpected expression" % (fname, pat))
                g.raw("// %s arm `%s =>` of %s (R26)\npub fn %s_val_%s(&mut self) -> (r: Result<Vec<dr::Operand>>)\n    requires old(self).decoder.wf(), old(self).decoder.limit is Some,\n"
                      "    ensures %s\n        final(self).decoder.wf(), final(self).inst_index == old(self).inst_index,\n"
                      "        r matches Ok(v) ==> (args_val(v@, old(self).decoder.bytes@, old(self).decoder.offset as int)\n"
                      "            && final(self).decoder.offset == old(self).decoder.offset + 4 * v@.len()),\n{\n    Ok(%s)\n}" % (
                          GEN, pat, fname, fname, em.group(2), FRAME, R22g(vm.group(1))))
                n_args_val += 1
                g.contract_clauses += 2
        g.n_args_val = n_args_val
        g.raw("}")
    g.n_generated = len(gfns)
    g.raw("} // mod parser")
    g.raw("} // mod binary")
    g.raw("} // verus!")
    g.raw("fn main() {}")
    return g


def describe():
    return {
        "unit": NAME,
        "functions_under_contract": ["binary::parser::Parser::" + n for n in
                                     ("split_into_word_count_and_opcode", "parse_header", "parse_inst", "parse_literal",
                                      "parse_spec_constant_op", "parse_operands", "parse_operand",
                                      "parse_image_operands_arguments", "parse_loop_control_arguments", "parse_memory_access_arguments",
                                      "parse_execution_mode_arguments", "parse_decoration_arguments",
                                      "parse_tensor_addressing_operands_arguments")],
        "assumptions": lib_spirv.ASSUMED + lib_dr.ASSUMED + [
            "Decoder method contracts: assumed here, discharged by unit decoder",
            "row_shape(op) (well-formedness + special-kind facts of every table row): assumed here, discharged per row by unit table_core",
            "TypeTracker::resolve is a lookup in the tracker's id->type map (abstract view; bounded check in unit kani_tracker)",
            "R6: u32::swap_bytes reverses the four bytes",
            "R10: Option::expect / panic!() panic exactly when reached (made obligations `requires o is Some` / `requires false`)",
            "R18: assert_eq!(a, b) has the panic condition of assert!(a == b)",
        ],
    }


# ---------------------------------------------------------------------------------------------
# witness search: every truncation and many word substitutions / word-count corruptions of a seed
# module, parsed with the REAL load_bytes (vreplay parse-batch): no panic; positioned errors name an
# instruction number >= 1 and an offset inside the buffer; accepted inputs re-assemble to themselves
# ---------------------------------------------------------------------------------------------

def row_sweep(ctx):
    """C03 on every row of the real instruction table: a minimal instruction built from the row (required operands only; all optional
    operands present, a variadic one twice) must be ACCEPTED by the real parser; the same without its last required operand, or with one
    surplus word when the row has no variadic operand, must be REJECTED. Rows with context-dependent kinds are left to the crafted cases."""
    from . import seeds
    from .lift_reflect import lift
    from .common import enum_variants, SPIRV
    p, err = ctx["vreplay"](["table-dump", "core"])
    if p is None or p.returncode != 0:
        return None
    enums_with_params, _ = lift()
    _vals = {}

    def enum_val(kind):
        if kind not in _vals:
            try:
                vs = enum_variants(Source.get(SPIRV).find("enum", kind))
                with_p = set(enums_with_params.get(kind, {}).keys())
                _vals[kind] = next((v for n_, v in vs if n_ not in with_p), None)
            except Exception:
                _vals[kind] = 0   # bit-mask kinds: no bit set
        return _vals[kind]
    from .kani_masks import mask_decls
    _, masks_lifted = lift()
    decls = {T: dict(c) for T, c in mask_decls()}
    masks_with_params = {}
    for K, groups in masks_lifted.items():
        for flags, ops in groups:
            if ops:
                for fl in flags:
                    masks_with_params.setdefault(K, []).append((decls[K][fl], len(ops)))
    cases = []
    for line in p.stdout.splitlines():
        parts = line.split()
        num, name = int(parts[0]), parts[1]
        kinds = [x.split(":") for x in parts[2][len("kinds="):].split(",") if x]
        if any(k in ("LiteralContextDependentNumber", "LiteralSpecConstantOpInteger", "PairLiteralIntegerIdRef") for k, q in kinds):
            continue
        ctr = [10]

        def words(k):
            if k in ("IdResultType", "IdResult", "IdRef", "IdScope", "IdMemorySemantics"):
                ctr[0] += 1
                return [ctr[0]]
            if k in ("LiteralInteger", "LiteralFloat", "LiteralExtInstInteger"):
                return [7]
            if k == "LiteralString":
                return seeds.s("abcdefg")
            if k in ("PairIdRefIdRef", "PairIdRefLiteralInteger"):
                ctr[0] += 2
                return [ctr[0] - 1, ctr[0]]
            v = enum_val(k)
            return None if v is None else [v]
        req, opt, ok = [], [], True
        for k, q in kinds:
            w = words(k)
            if w is None:
                ok = False
                break
            if q == "One":
                req.append((k, w))
            elif q == "ZeroOrOne":
                opt.append(w)
            else:
                opt.append(w + (words(k) or []))
        if not ok:
            continue
        flat = lambda ws: [x for w in ws for x in w]
        a = flat([w for _, w in req])
        full = a + flat(opt)
        mk = lambda ws: seeds.to_hex_bytes(seeds.HEADER + [((len(ws) + 1) << 16) | num] + ws)
        cases.append(("accept", name, "required operands only", mk(a)))
        # a parameterised mask operand with one parameter-carrying flag set, followed by that flag's parameters
        for pos, (k, q) in enumerate(kinds):
            if k in masks_with_params and q in ("One", "ZeroOrOne"):
                for bit, nparams in masks_with_params[k][:6]:
                    ws = []
                    for k2, q2 in kinds[:pos]:
                        # every operand before the mask is present (optional ones too: an optional operand may only be a trailing run)
                        ws += (words(k2) or [])
                    ws += [bit] + [40 + j for j in range(nparams)]
                    for k2, q2 in kinds[pos + 1:]:
                        if q2 == "One":
                            ws += (words(k2) or [])
                    cases.append(("accept", name, "%s flag %#x with its %d parameter(s)" % (k, bit, nparams), mk(ws)))
        if opt:
            cases.append(("accept", name, "all optional operands present", mk(full)))
        nonres = [(k, w) for k, w in req if k not in ("IdResultType", "IdResult")]
        if nonres:
            cases.append(("reject", name, "last required operand missing", mk(a[:len(a) - len(req[-1][1])])))
        if not any(q == "ZeroOrMore" for _, q in kinds):
            cases.append(("reject", name, "one surplus word", mk(full + [1])))
    pr, err = ctx["vreplay"](["parse-only"], stdin="\n".join(c[3] for c in cases) + "\n", timeout=600)
    if pr is None or pr.returncode != 0:
        return None
    for (want, name, what, hx), o in zip(cases, pr.stdout.splitlines()):
        if o.startswith("PANIC"):
            return {"found": True, "exhaustive": False, "input": {"opcode": name, "case": what, "bytes_hex": hx}, "observed": o, "disagreement": "panic"}
        if want == "accept" and not o.startswith("Ok 1 "):
            return {"found": True, "exhaustive": False, "input": {"opcode": name, "case": what, "bytes_hex": hx}, "observed": o,
                    "disagreement": "an instruction matching its grammar row (%s) is rejected" % what}
        if want == "reject" and o.startswith("Ok"):
            return {"found": True, "exhaustive": False, "input": {"opcode": name, "case": what, "bytes_hex": hx}, "observed": o,
                    "disagreement": "an instruction not matching its grammar row (%s) is accepted" % what}
    return {"found": False, "cases": len(cases)}


def witness(failure, ctx):
    from . import seeds
    rs = row_sweep(ctx)
    if rs and rs.get("found"):
        rs["how"] = "vreplay parse-only on the real parser: one accept / reject family per row of the real instruction table"
        return rs
    base = seeds.seed_main()
    hexb = seeds.to_hex_bytes(base)
    cases = [("seed", hexb)]
    for n in range(0, len(hexb) // 2):
        cases.append(("truncate@%d" % n, hexb[:2 * n]))
    subs = [0, 1, 0xffffffff, 0x0001ffff, 0xffff0001, 0x00020034, 0x0003002b, 0x7fffffff, 0x10080]
    for i in range(5, len(base)):
        for v in subs:
            m = list(base)
            m[i] = v
            cases.append(("word%d=%#x" % (i, v), seeds.to_hex_bytes(m)))
    for i in seeds.instruction_starts(base):
        for d in (-1, 1, 2, 0x100, 0xff00):
            m = list(base)
            wc = ((m[i] >> 16) + d) & 0xffff
            m[i] = (wc << 16) | (m[i] & 0xffff)
            cases.append(("wc%d%+d" % (i, d), seeds.to_hex_bytes(m)))
    # OpSpecConstantOp embedding every opcode number of interest
    for opc in (43, 50, 52, 251, 81, 79, 128, 0x10080, 0xffff, 0):
        m = seeds.HEADER + seeds.inst(21, 4, 32, 1) + seeds.inst(52, 4, 13, opc, 8, 12, 1, 2)
        cases.append(("specop%d" % opc, seeds.to_hex_bytes(m)))
    # C03/C02: OpSpecConstantOp embedding an opcode whose last operand is variadic, with 0, 1, 2 and 3 variadic operands:
    # grammar-conforming, so it must be accepted and come back operand for operand
    for opc, fixed in ((81, [8]), (82, [8, 9]), (79, [8, 9]), (65, [8])):
        for nvar in (0, 1, 2, 3):
            m = seeds.HEADER + seeds.inst(21, 4, 32, 1) + seeds.inst(52, 4, 13, opc, *(fixed + [1, 2, 3][:nvar]))
            cases.append(("c03-specop-variadic-%d-%d" % (opc, nvar), seeds.to_hex_bytes(m)))
    # C03: quantifier structure at top level. must-accept: optional operand present / absent, variadic 0..3, parameterised
    # enumerant with its parameter; must-reject: missing required operand, operand after the optional one, surplus word
    T = seeds.HEADER + seeds.inst(19, 1) + seeds.inst(21, 2, 32, 0) + seeds.inst(32, 3, 7, 2)   # %1 void, %2 u32, %3 ptr Function u32
    for name, words in (("var", seeds.inst(59, 3, 4, 6)), ("var-init", seeds.inst(59, 3, 4, 6, 9)),
                        ("struct0", seeds.inst(30, 5)), ("struct1", seeds.inst(30, 5, 2)), ("struct3", seeds.inst(30, 5, 2, 2, 2)),
                        ("decorate-specid", seeds.inst(71, 2, 1, 7)), ("decorate-plain", seeds.inst(71, 2, 0)),
                        ("entry-noif", seeds.inst(15, 5, 9, *seeds.s("m"))), ("entry-if2", seeds.inst(15, 5, 9, *(seeds.s("m") + [4, 5])))):
        cases.append(("c03-accept-" + name, seeds.to_hex_bytes(T + words)))
    for name, words in (("var-two-inits", seeds.inst(59, 3, 4, 6, 9, 10)), ("var-no-class", seeds.inst(59, 3, 4)),
                        ("void-extra", seeds.inst(19, 8, 1)), ("memmodel-extra", seeds.inst(14, 0, 1, 1)), ("memmodel-short", seeds.inst(14, 0)),
                        ("decorate-specid-noparam", seeds.inst(71, 2, 1)), ("decorate-plain-extra", seeds.inst(71, 2, 0, 5)),
                        ("typeint-short", seeds.inst(21, 8, 32)), ("typeint-extra", seeds.inst(21, 8, 32, 0, 0))):
        cases.append(("c03-reject-" + name, seeds.to_hex_bytes(T + words)))
    # C01/C02 value level: ids and literals with every byte non-zero must come back bit for bit
    big = (seeds.HEADER[:3] + [0xffffffff] + seeds.HEADER[4:] + seeds.inst(5, 0xfffffff1, *seeds.s("x")) + seeds.inst(71, 0xfffffff2, 1, 0xfffefdfc)
           + seeds.inst(21, 0xfffffff3, 32, 1) + seeds.inst(43, 0xfffffff3, 0xfffffff4, 0xfffefdfc) + seeds.inst(30, 0xfffffff5, 0xfffffff3, 0xf1f2f3f4))
    cases.append(("c01-bigwords", seeds.to_hex_bytes(big)))
    # C02/C01: a string followed by further operands whose bytes are not UTF-8 (ids 128, 255, 0xffff..): accepted, same operands
    for ids in ([128], [200, 255, 0xffff], [0xfffefdfc]):
        cases.append(("c01-string-then-%x" % ids[0], seeds.to_hex_bytes(seeds.HEADER + seeds.inst(15, 4, 4, *(seeds.s("main") + [9] + ids)))))
    # C10: solely by the declarations that PRECEDE the literal: unknown (one word), then declared 64-bit, then two words
    cases.append(("c10-declared-between", seeds.to_hex_bytes(seeds.HEADER + seeds.inst(43, 1, 2, 7) + seeds.inst(21, 1, 64, 0) + seeds.inst(43, 1, 3, 5, 6))))
    cases.append(("c10-declared-between-float", seeds.to_hex_bytes(seeds.HEADER + seeds.inst(50, 1, 2, 7) + seeds.inst(22, 1, 64) + seeds.inst(50, 1, 3, 5, 6) + seeds.inst(43, 1, 4, 8, 9))))
    # C10: never on earlier parses: a parse that fails after declaring a 64-bit type, then a module that uses the same id undeclared
    cases.append(("leak-a", seeds.to_hex_bytes(seeds.HEADER + seeds.inst(21, 1, 64, 0) + seeds.inst(22, 3, 128) + [0x00000000])))
    cases.append(("c10-after-failed-parse", seeds.to_hex_bytes(seeds.HEADER + seeds.inst(43, 1, 2, 42))))
    cases.append(("c10-after-failed-parse-f128", seeds.to_hex_bytes(seeds.HEADER + seeds.inst(43, 3, 2, 42))))
    # C10: the literal width depends on the declarations only, not on the magnitude of the ids involved
    for tid in (0x3ffffe, 0x3fffff, 0x400000, 0x7fffffff, 0xffffffff):
        for (top, width, lit) in ((21, 64, [5, 6]), (22, 64, [5, 6]), (21, 16, [5])):
            tyw = seeds.inst(top, tid, width, 0) if top == 21 else seeds.inst(top, tid, width)
            cases.append(("c10-bigid-%x-%d-%d" % (tid, top, width), seeds.to_hex_bytes(seeds.HEADER + tyw + seeds.inst(43, tid, 2, *lit))))
        # selector with a huge value id, small type id
        m = (seeds.HEADER + seeds.inst(19, 2) + seeds.inst(33, 3, 2) + seeds.inst(21, 4, 64, 0) + seeds.inst(43, 4, tid, 5, 0)
             + seeds.inst(54, 2, 20, 0, 3) + seeds.inst(248, 21) + seeds.inst(251, tid, 22, 5, 0, 23)
             + seeds.inst(248, 22) + seeds.inst(253) + seeds.inst(248, 23) + seeds.inst(253) + seeds.inst(56))
        cases.append(("c10-bigsel-%x" % tid, seeds.to_hex_bytes(m)))
    # C01: relative order inside every section / function / block: several instructions of each kind with distinct operands,
    # once in layout order and once with the module-level sections interleaved
    dup = (seeds.inst(17, 1) + seeds.inst(17, 2) + seeds.inst(10, *seeds.s("e1")) + seeds.inst(10, *seeds.s("e2")) + seeds.inst(14, 0, 1)
           + seeds.inst(7, 40, *seeds.s("s1")) + seeds.inst(7, 41, *seeds.s("s2")) + seeds.inst(5, 1, *seeds.s("n1")) + seeds.inst(5, 2, *seeds.s("n2")) + seeds.inst(5, 3, *seeds.s("n3"))
           + seeds.inst(71, 1, 0) + seeds.inst(71, 2, 0) + seeds.inst(71, 3, 1, 7) + seeds.inst(19, 1) + seeds.inst(21, 2, 32, 0) + seeds.inst(21, 3, 32, 1)
           + seeds.inst(43, 2, 4, 10) + seeds.inst(43, 2, 5, 11) + seeds.inst(33, 6, 1)
           + seeds.inst(54, 1, 7, 0, 6) + seeds.inst(248, 8) + seeds.inst(0) + seeds.inst(249, 9) + seeds.inst(248, 9) + seeds.inst(253) + seeds.inst(56)
           + seeds.inst(54, 1, 10, 0, 6) + seeds.inst(248, 11) + seeds.inst(253) + seeds.inst(56))
    cases.append(("c01-order-layout", seeds.to_hex_bytes(seeds.HEADER + dup)))
    inter = (seeds.inst(71, 1, 0) + seeds.inst(5, 1, *seeds.s("n1")) + seeds.inst(17, 1) + seeds.inst(19, 1) + seeds.inst(71, 2, 0) + seeds.inst(5, 2, *seeds.s("n2"))
             + seeds.inst(17, 2) + seeds.inst(21, 2, 32, 0) + seeds.inst(71, 3, 1, 7) + seeds.inst(5, 3, *seeds.s("n3")) + seeds.inst(21, 3, 32, 1))
    cases.append(("c01-order-interleaved", seeds.to_hex_bytes(seeds.HEADER + inter)))
    # C01: header: the version word of the input is carried, whatever version it claims (older, newer than the library's, odd)
    for ver in (0x00000000, 0x00010000, 0x00010300, 0x00010600, 0x00010700, 0x00020000, 0x00ff0100):
        hv = seeds.HEADER[:1] + [ver] + seeds.HEADER[2:]
        cases.append(("c01-version-%x" % ver, seeds.to_hex_bytes(hv + seeds.inst(19, 1) + seeds.inst(21, 2, 32, 0))))
    # C03: OpSpecConstantOp whose opcode word has high bits set (low half spells SNegate / IAdd) is not an opcode
    cases.append(("c03-reject-specop-high-bits", seeds.to_hex_bytes(seeds.HEADER + seeds.inst(21, 4, 32, 1) + seeds.inst(52, 4, 13, 0x0002007e, 8))))
    cases.append(("c03-reject-specop-high-bits-2", seeds.to_hex_bytes(seeds.HEADER + seeds.inst(21, 4, 32, 1) + seeds.inst(52, 4, 13, 0xffff0080, 8, 9))))
    # C01/C02: strings with multi-byte characters (byte length and character count differ) come back byte for byte
    for txt in ("\u00e9\u00e9", "\u00e9\u00e9\u00e9", "\u65e5\u672c\u8a9e\u3067", "ab\u00e9\u00e9\u00e9\u00e9\u00e9\u00e9", "x\U0001f600y\U0001f600"):
        bs = list(txt.encode("utf-8")) + [0]
        while len(bs) % 4:
            bs.append(0)
        ws = [int.from_bytes(bytes(bs[i:i + 4]), "little") for i in range(0, len(bs), 4)]
        cases.append(("c01-utf8-%d" % len(txt.encode("utf-8")), seeds.to_hex_bytes(seeds.HEADER + seeds.inst(7, 40, *ws) + seeds.inst(5, 1, *ws) + seeds.inst(19, 1))))
    # C10: any interleaving of declarations: the same scalar type declared twice under different ids
    cases.append(("c10-duplicate-type-int64", seeds.to_hex_bytes(seeds.HEADER + seeds.inst(21, 1, 64, 0) + seeds.inst(21, 2, 64, 0) + seeds.inst(43, 2, 3, 5, 6) + seeds.inst(50, 1, 4, 7, 8))))
    cases.append(("c10-duplicate-type-float64", seeds.to_hex_bytes(seeds.HEADER + seeds.inst(22, 1, 64) + seeds.inst(22, 2, 64) + seeds.inst(43, 2, 3, 5, 6))))
    cases.append(("c03-reject-duplicate-type-int128", seeds.to_hex_bytes(seeds.HEADER + seeds.inst(21, 1, 128, 0) + seeds.inst(21, 2, 128, 0) + seeds.inst(43, 2, 3, 5))))
    # C10: a literal of an unknown type is ONE word: two literal words leave a surplus word (rejected), whatever the word count suggests
    cases.append(("c03-reject-const-unknown-type-two-words", seeds.to_hex_bytes(seeds.HEADER + seeds.inst(43, 1, 2, 7, 0))))
    cases.append(("c03-reject-const-type-declared-later-two-words", seeds.to_hex_bytes(seeds.HEADER + seeds.inst(43, 1, 2, 7, 0) + seeds.inst(21, 1, 64, 0))))
    cases.append(("c03-reject-specconst-unknown-type-two-words", seeds.to_hex_bytes(seeds.HEADER + seeds.inst(50, 1, 2, 7, 0))))
    # C01: header: the id bound of the input is carried, whatever ids the module uses (bound too small / zero / huge)
    for bound in (0, 1, 2, 0xffffffff):
        hb = seeds.HEADER[:3] + [bound] + seeds.HEADER[4:]
        cases.append(("c01-bound-%x" % bound, seeds.to_hex_bytes(hb + seeds.inst(19, 1) + seeds.inst(20, 7) + seeds.inst(21, 9, 32, 0))))
    # C04: an OpConstant whose type is declared only afterwards / declared twice with different widths: whatever the loader
    # accepts must disassemble without panicking
    cases.append(("c04-const-before-type", seeds.to_hex_bytes(seeds.HEADER + seeds.inst(43, 1, 2, 7) + seeds.inst(21, 1, 64, 0))))
    cases.append(("c04-const-before-float-type", seeds.to_hex_bytes(seeds.HEADER + seeds.inst(43, 1, 2, 7) + seeds.inst(22, 1, 64))))
    cases.append(("c04-type-redeclared", seeds.to_hex_bytes(seeds.HEADER + seeds.inst(21, 1, 64, 1) + seeds.inst(43, 1, 2, 7, 0) + seeds.inst(22, 1, 32))))
    cases.append(("c04-type-redeclared-wider", seeds.to_hex_bytes(seeds.HEADER + seeds.inst(21, 1, 32, 1) + seeds.inst(43, 1, 2, 7) + seeds.inst(21, 1, 64, 0))))
    # C01: crafted modules in layout order whose instructions must come back word-identical (or be rejected):
    # strings with non-UTF-8 bytes, with every length mod 4, 64-bit literals, all sections populated
    for bad in ([0xff, 0x41, 0, 0], [0x41, 0xc3, 0x28, 0], [0x41, 0x42, 0x43, 0x44, 0xe2, 0x82, 0, 0], [0x80, 0, 0, 0]):
        ws = [int.from_bytes(bytes(bad[i:i + 4]), "little") for i in range(0, len(bad), 4)]
        cases.append(("c01-nonutf8", seeds.to_hex_bytes(seeds.HEADER + seeds.inst(5, 1, *ws) + seeds.inst(19, 2))))
    for n in range(0, 9):
        cases.append(("c01-strlen%d" % n, seeds.to_hex_bytes(seeds.HEADER + seeds.inst(7, 1, *seeds.s("x" * n)) + seeds.inst(5, 1, *seeds.s("y" * n)))))
    # C10: OpSwitch on a selector of every supported width/kind, defined inside the function (type propagated
    # through the defining instruction's result type), plus OpConstant of that type: must load and round-trip
    for kind, op, width in (("int", 21, 8), ("int", 21, 16), ("int", 21, 32), ("int", 21, 64),
                            ("float", 22, 16), ("float", 22, 32), ("float", 22, 64)):
        tywords = seeds.inst(op, 4, width, 0) if kind == "int" else seeds.inst(op, 4, width)
        lit = [5, 0] if width == 64 else [5]
        m = (seeds.HEADER + seeds.inst(19, 2) + seeds.inst(33, 3, 2) + tywords + seeds.inst(43, 4, 9, *lit)
             + seeds.inst(54, 2, 20, 0, 3) + seeds.inst(248, 21) + seeds.inst(1, 4, 8) + seeds.inst(251, 8, 22, *(lit + [23]))
             + seeds.inst(248, 22) + seeds.inst(253) + seeds.inst(248, 23) + seeds.inst(253) + seeds.inst(56))
        cases.append(("c10-%s%d" % (kind, width), seeds.to_hex_bytes(m)))
    # C01/C10: literals of narrow integer types whose unused high-order bits are not canonical: one word each,
    # and the word must come back bit for bit (OpConstant and OpSwitch case literals), signed and unsigned
    for width in (8, 16, 32):
        for signed in (0, 1):
            for lit in (0xffff1234, 0x100, 0x80000000):
                m = (seeds.HEADER + seeds.inst(19, 2) + seeds.inst(33, 3, 2) + seeds.inst(21, 4, width, signed) + seeds.inst(43, 4, 9, lit)
                     + seeds.inst(54, 2, 20, 0, 3) + seeds.inst(248, 21) + seeds.inst(1, 4, 8) + seeds.inst(251, 8, 22, lit, 23)
                     + seeds.inst(248, 22) + seeds.inst(253) + seeds.inst(248, 23) + seeds.inst(253) + seeds.inst(56))
                cases.append(("c10-narrow-int%d-%d-%x" % (width, signed, lit), seeds.to_hex_bytes(m)))
    p, err = ctx["vreplay"](["parse-batch"], stdin="\n".join(h for _, h in cases) + "\n", timeout=900)
    if p is None or p.returncode != 0:
        return {"found": False, "error": err or p.stderr[-300:]}
    outs = p.stdout.splitlines()
    seedwords = ",".join("%x" % w for w in base[5:])
    for (name, h), o in zip(cases, outs):
        bad = None
        if o.startswith("PANIC"):
            bad = "panic: " + o
        elif o.startswith("Ok") and name.startswith("c03-reject-"):
            bad = "an instruction whose operand words do not match its grammar row is accepted: " + o
        elif o.startswith("Ok"):
            if " rt=1" not in o:
                bad = "accepted input does not re-assemble to a fixed point"
            elif name == "seed" and o.split("words=")[1] != seedwords:
                bad = "seed module (layout order) does not come back word-identical"
            elif name == "c01-order-layout" and o.split("words=")[1] != ",".join("%x" % w for w in dup):
                bad = "a module already in layout order does not come back word-identical (C01)"
            elif (name == "seed" or name.startswith("c01-") or name.startswith("c10-") or name.startswith("c03-")) and " same=1" not in o:
                bad = "accepted input is not reproduced instruction for instruction (C01)"
            elif " ord=1" not in o and " same=1" in o:
                bad = "instructions of the same opcode come back in a different relative order (C01)"
            elif " hdr=1" not in o:
                bad = "the assembled header does not carry the input's magic / version / id bound (C01)"
        elif name == "seed" or name.startswith("c10-") or name.startswith("c03-specop-variadic") or name.startswith("c03-accept-"):
            bad = "a well-formed module is rejected: " + o
        elif o.startswith("Err"):
            m = re.search(r"\((\d+),(\d+)[,)]", o)
            if m and any(k in o for k in ("WordCountZero", "OpcodeUnknown", "OperandExpected", "OperandExceeded",
                                          "TypeUnsupported", "SpecConstantOpIntegerIncorrect")):
                off, idx = int(m.group(1)), int(m.group(2))
                if idx < 1 or off > len(h) // 2 + 4 * 0xffff or off < 20:
                    bad = "error position out of range: " + o
        if bad:
            return {"found": True, "exhaustive": False, "input": {"case": name, "bytes_hex": h}, "observed": o, "disagreement": bad,
                    "how": "vreplay parse-batch on the real load_bytes, %d mutated modules" % len(cases)}
    return {"found": False, "exhaustive": False, "how": "%d truncations/substitutions/word-count corruptions of the seed module and crafted modules: no panic, positions in range, fixed points; row sweep: %s accept/reject cases over the instruction table" % (len(cases), (rs or {}).get("cases"))}
