"""`mod grammar` (types + lookups by contract) and `mod dr` (real data-representation types) as
seen by the units that build on them (loader, builder, parser, assembler).

* grammar::{OperandKind, OperandQuantifier, LogicalOperand, Instruction}: real declarations;
* grammar::CoreInstructionTable::{get, lookup_opcode}: contract-only here (external_body) —
  the contracts are the ones unit `table_core` discharges on the real bodies;
* grammar::reflect::*: contract-only here — discharged by unit `reflect`;
* dr::{Operand, Instruction, Module, ModuleHeader, Function, Block}: real declarations;
  dr::{Module,Function,Block,Instruction}::new: real bodies, verified here.
"""
import re
from .common import Source, Piece, Lost, SPIRV, ENUM_EQ, enum_variants, count_clauses
from . import reflect as reflect_unit

SYNTAX = "rspirv/grammar/syntax.rs"
TABLE = "rspirv/grammar/autogen_table.rs"
CONSTRUCTS = "rspirv/dr/constructs.rs"
OPERAND = "rspirv/dr/autogen_operand.rs"


def emit_grammar(g, with_reflect=True, table_spec=False):
    src = Source.get(SYNTAX)
    tsrc = Source.get(TABLE)
    g.raw("pub mod grammar {\nuse vstd::prelude::*;\nuse crate::spirv;")
    g.raw("#[derive(Clone, Copy, PartialEq, Eq)]")
    g.emit(Piece(tsrc.find("enum", "OperandKind")), name="grammar::OperandKind", under_contract=False)
    g.raw(ENUM_EQ % {"T": "OperandKind"})
    g.raw("#[derive(Clone, Copy, PartialEq, Eq)]")
    g.emit(Piece(src.find("enum", "OperandQuantifier")), name="grammar::OperandQuantifier", under_contract=False)
    g.raw(ENUM_EQ % {"T": "OperandQuantifier"})
    g.emit(Piece(src.find("struct", "LogicalOperand")), name="grammar::LogicalOperand", under_contract=False)
    g.emit(Piece(src.find("struct", "Instruction")), name="grammar::Instruction", under_contract=False)
    g.emit(Piece(src.find("struct", "CoreInstructionTable")), name="grammar::CoreInstructionTable", under_contract=False)
    from .tables import SPECIAL_SPEC
    g.raw(("""pub type GInstRef = &'static Instruction<'static>;
// the table as a function of the opcode (what unit table_core proves about the static table:
// exactly one row per declared opcode; `get`/`lookup_opcode` return that row)
pub uninterp spec fn row_of(op: spirv::Op) -> Instruction<'static>;
pub open spec fn row_operands(op: spirv::Op) -> Seq<LogicalOperand> { row_of(op).operands@ }
// contract discharged on the real bodies by unit table_core (uniqueness + totality lemmas)
#[verifier::external_body]
pub proof fn row_of_opcode(op: spirv::Op) ensures row_of(op).opcode == op {}
// well-formedness and special-kind facts of every row: discharged per row by unit table_core (row_shape)
pub open spec fn is_opt(q: OperandQuantifier) -> bool { q == OperandQuantifier::ZeroOrOne || q == OperandQuantifier::ZeroOrMore }
pub open spec fn wf_ids(o: Seq<LogicalOperand>, i: int) -> bool
    decreases o.len() - i,
{
    if i >= o.len() || i < 0 { true } else {
        (o[i].kind == OperandKind::IdResultType ==> (i == 0 && o[i].quantifier == OperandQuantifier::One))
        && (o[i].kind == OperandKind::IdResult ==> (o[i].quantifier == OperandQuantifier::One
                && (i == 0 || (i == 1 && o[0].kind == OperandKind::IdResultType))))
        && wf_ids(o, i + 1)
    }
}
pub open spec fn wf_quant(o: Seq<LogicalOperand>, i: int, seen_opt: bool) -> bool
    decreases o.len() - i,
{
    if i >= o.len() || i < 0 { true } else {
        (o[i].quantifier == OperandQuantifier::One ==> !seen_opt)
        && (o[i].quantifier == OperandQuantifier::ZeroOrMore ==> i == o.len() - 1)
        && wf_quant(o, i + 1, seen_opt || is_opt(o[i].quantifier))
    }
}
%(SPECIAL)s
#[verifier::external_body]
pub proof fn row_shape(op: spirv::Op)
    ensures wf_ids(row_operands(op), 0), wf_quant(row_operands(op), 0, false), special_from(row_operands(op), op, 0),
{}
impl CoreInstructionTable {
    #[verifier::external_body]
    pub fn get(opcode: spirv::Op) -> (r: &'static Instruction<'static>)
        ensures *r == row_of(opcode), r.opcode == opcode,
    { unimplemented!() }
    #[verifier::external_body]
    pub fn lookup_opcode(opcode: u16) -> (r: Option<&'static Instruction<'static>>)
        ensures
            (r is Some) <==> spirv::declared_Op(opcode as u32),
            r matches Some(e) ==> (*e == row_of(e.opcode) && (e.opcode as u32) == opcode as u32),
    { unimplemented!() }
}""").replace("%(SPECIAL)s", SPECIAL_SPEC))
    if with_reflect:
        sets = reflect_unit.class_sets()
        g.raw("pub mod reflect {\nuse vstd::prelude::*;\nuse crate::spirv;")
        # spec classes (O2 + specification lists), same text as unit reflect
        g.raw("use crate::spirv::Op;")
        from .common import spec_set_fn
        for name in ("class_type", "class_constant", "class_annotation", "class_debug", "spec_loc_debug",
                     "spec_nonloc_debug", "spec_branch", "spec_return", "spec_abort"):
            g.raw(spec_set_fn(name, "Op", sets[name]))
        g.raw("pub open spec fn spec_block_terminator(op: Op) -> bool { spec_branch(op) || spec_return(op) || spec_abort(op) }")
        rsrc = Source.get(reflect_unit.REFLECT)
        spec_of = {
            "is_location_debug": "spec_loc_debug(opcode)", "is_nonlocation_debug": "spec_nonloc_debug(opcode)",
            "is_debug": "(spec_loc_debug(opcode) || spec_nonloc_debug(opcode))", "is_annotation": "class_annotation(opcode)",
            "is_type": "class_type(opcode)", "is_constant": "class_constant(opcode)",
            "is_variable": "(opcode == spirv::Op::Variable)", "is_return": "spec_return(opcode)",
            "is_abort": "spec_abort(opcode)", "is_return_or_abort": "(spec_return(opcode) || spec_abort(opcode))",
            "is_branch": "spec_branch(opcode)", "is_block_terminator": "spec_block_terminator(opcode)",
        }
        for f in [it for it in rsrc.items if it.kind == "fn"]:
            if f.name in spec_of:
                g.raw("// contract discharged on the real body by unit reflect\n#[verifier::external_body]\n"
                      "pub fn %s(opcode: spirv::Op) -> (r: bool) ensures r == %s { unimplemented!() }" % (f.name, spec_of[f.name]))
        g.raw("} // mod reflect")
    g.raw("} // mod grammar")


def emit_dr(g, with_new=True, operand_eq=False):
    src = Source.get(CONSTRUCTS)
    osrc = Source.get(OPERAND)
    g.raw("pub mod dr {\nuse vstd::prelude::*;\nuse crate::spirv;\nuse crate::grammar;\nuse crate::spirv::Word;")
    g.emit(Piece(osrc.find("enum", "Operand")), name="dr::Operand", under_contract=False)
    for sname in ("Module", "ModuleHeader", "Function", "Block", "Instruction"):
        g.emit(Piece(src.find("struct", sname)), name="dr::" + sname, under_contract=False)
    if with_new:
        for ty in ("Module", "Function", "Block"):
            f = src.find("fn", ty + "::new")
            p = Piece(f)
            p.name_result("r")
            if ty == "Module":
                c = ("ensures r.header is None, r.capabilities@.len() == 0, r.extensions@.len() == 0, r.ext_inst_imports@.len() == 0,\n"
                     "        r.memory_model is None, r.entry_points@.len() == 0, r.execution_modes@.len() == 0,\n"
                     "        r.debug_string_source@.len() == 0, r.debug_names@.len() == 0, r.debug_module_processed@.len() == 0,\n"
                     "        r.annotations@.len() == 0, r.types_global_values@.len() == 0, r.functions@.len() == 0,")
            elif ty == "Function":
                c = "ensures r.def is None, r.end is None, r.parameters@.len() == 0, r.blocks@.len() == 0,"
            else:
                c = "ensures r.label is None, r.instructions@.len() == 0,"
            p.add_contract("    " + c)
            g.contract_clauses += count_clauses(c)
            g.raw("impl %s {" % ty)
            g.emit(p, name="dr::%s::new" % ty)
            g.raw("}")
        # ModuleHeader::{new, set_version, version} and utils::version (real bodies)
        vsrc = Source.get("rspirv/utils/version.rs")
        g.raw("""pub mod version {
use vstd::prelude::*;
use crate::spirv::Word;
pub open spec fn version_word(major: u8, minor: u8) -> u32 { ((major as u32) << 16) | ((minor as u32) << 8) }
// R6: u32::from_le_bytes([b0, b1, b2, b3]) / u32::to_le_bytes: std, validated by Kani (unit kani_version)
#[verifier::external_body]
pub fn le_word4(b: [u8; 4]) -> (r: u32)
    ensures r == (b[0] as u32) | ((b[1] as u32) << 8) | ((b[2] as u32) << 16) | ((b[3] as u32) << 24),
{ u32::from_le_bytes(b) }
#[verifier::external_body]
pub fn le_bytes4(w: u32) -> (r: [u8; 4])
    ensures r[0] == (w & 0xff) as u8, r[1] == ((w >> 8) & 0xff) as u8, r[2] == ((w >> 16) & 0xff) as u8, r[3] == ((w >> 24) & 0xff) as u8,
{ w.to_le_bytes() }""")
        for fname, contract in (("create_version_from_word", "ensures r.0 == ((version >> 16) & 0xff) as u8, r.1 == ((version >> 8) & 0xff) as u8,"),
                                ("create_word_from_version", "ensures r == version_word(major, minor),")):
            p = Piece(vsrc.find("fn", fname))
            p.name_result("r")
            p.sub(r"Word::from_le_bytes\(", "le_word4(", "R6", required=False)
            p.sub(r"version\.to_le_bytes\(\)", "le_bytes4(version)", "R6", required=False)
            p.add_contract("    " + contract)
            if fname == "create_word_from_version":
                p.insert_at("{", " proof { assert(((0u8 as u32) | ((minor as u32) << 8) | ((major as u32) << 16) | ((0u8 as u32) << 24)) == version_word(major, minor)) by(bit_vector); } ", where="after", nth=1)
            g.emit(p, name="utils::version::" + fname)
            g.contract_clauses += 1
        g.raw("} // mod version")
        g.raw("impl ModuleHeader {")
        for fname, rn, contract in (("new", "r", "ensures r.magic_number == spirv::MAGIC_NUMBER, r.bound == bound, r.generator == 0x000f_0000u32, r.reserved_word == 0,\n        r.version == version::version_word(spirv::MAJOR_VERSION, spirv::MINOR_VERSION),"),
                                    ("set_version", None, "ensures final(self).version == version::version_word(major, minor), final(self).bound == old(self).bound,\n        final(self).magic_number == old(self).magic_number, final(self).generator == old(self).generator, final(self).reserved_word == old(self).reserved_word,"),
                                    ("version", "r", "ensures r.0 == ((self.version >> 16) & 0xff) as u8, r.1 == ((self.version >> 8) & 0xff) as u8,")):
            p = Piece(src.find("fn", "ModuleHeader::" + fname))
            if rn:
                p.name_result(rn)
            p.add_contract("    " + contract)
            g.contract_clauses += 1
            g.emit(p, name="dr::ModuleHeader::" + fname)
        g.raw("}")
        f = src.find("fn", "Instruction::new")
        p = Piece(f)
        p.name_result("r")
        c = ("ensures *r.class == grammar::row_of(opcode), r.class.opcode == opcode, r.result_type == result_type,\n"
             "        r.result_id == result_id, r.operands == operands,")
        p.add_contract("    " + c)
        g.contract_clauses += count_clauses(c)
        g.raw("impl Instruction {")
        g.emit(p, name="dr::Instruction::new")
        g.raw("}")
    g.raw(DR_VIEWS)
    g.raw("} // mod dr")


# abstract views (Seq instead of Vec) of the data representation; postconditions are stated over them
DR_VIEWS = r"""
pub struct BlockV { pub label: Option<Instruction>, pub instructions: Seq<Instruction> }
pub struct FunctionV {
    pub def: Option<Instruction>, pub end: Option<Instruction>,
    pub parameters: Seq<Instruction>, pub blocks: Seq<BlockV>,
}
pub struct ModuleV {
    pub header: Option<ModuleHeader>,
    pub capabilities: Seq<Instruction>, pub extensions: Seq<Instruction>, pub ext_inst_imports: Seq<Instruction>,
    pub memory_model: Option<Instruction>, pub entry_points: Seq<Instruction>, pub execution_modes: Seq<Instruction>,
    pub debug_string_source: Seq<Instruction>, pub debug_names: Seq<Instruction>,
    pub debug_module_processed: Seq<Instruction>, pub annotations: Seq<Instruction>,
    pub types_global_values: Seq<Instruction>, pub functions: Seq<FunctionV>,
}
pub open spec fn block_view(b: Block) -> BlockV { BlockV { label: b.label, instructions: b.instructions@ } }
pub open spec fn blocks_view(bs: Seq<Block>) -> Seq<BlockV> { Seq::new(bs.len(), |i: int| block_view(bs[i])) }
pub open spec fn function_view(f: Function) -> FunctionV {
    FunctionV { def: f.def, end: f.end, parameters: f.parameters@, blocks: blocks_view(f.blocks@) }
}
pub open spec fn functions_view(fs: Seq<Function>) -> Seq<FunctionV> { Seq::new(fs.len(), |i: int| function_view(fs[i])) }
pub open spec fn module_view(m: Module) -> ModuleV {
    ModuleV {
        header: m.header, capabilities: m.capabilities@, extensions: m.extensions@, ext_inst_imports: m.ext_inst_imports@,
        memory_model: m.memory_model, entry_points: m.entry_points@, execution_modes: m.execution_modes@,
        debug_string_source: m.debug_string_source@, debug_names: m.debug_names@,
        debug_module_processed: m.debug_module_processed@, annotations: m.annotations@,
        types_global_values: m.types_global_values@, functions: functions_view(m.functions@),
    }
}
// extensional equality of views, field by field (postconditions are stated with these so that the
// solver proves them componentwise; `*_ext_eq` lemmas turn them into equalities)
pub open spec fn block_ext(a: BlockV, b: BlockV) -> bool { a.label == b.label && a.instructions =~= b.instructions }
pub open spec fn blocks_ext(a: Seq<BlockV>, b: Seq<BlockV>) -> bool {
    a.len() == b.len() && forall|i: int| 0 <= i < a.len() ==> block_ext(#[trigger] a[i], b[i])
}
pub open spec fn function_ext(a: FunctionV, b: FunctionV) -> bool {
    a.def == b.def && a.end == b.end && a.parameters =~= b.parameters && blocks_ext(a.blocks, b.blocks)
}
pub open spec fn functions_ext(a: Seq<FunctionV>, b: Seq<FunctionV>) -> bool {
    a.len() == b.len() && forall|i: int| 0 <= i < a.len() ==> function_ext(#[trigger] a[i], b[i])
}
pub open spec fn module_ext(a: ModuleV, b: ModuleV) -> bool {
    a.header == b.header && a.capabilities =~= b.capabilities && a.extensions =~= b.extensions
    && a.ext_inst_imports =~= b.ext_inst_imports && a.memory_model == b.memory_model && a.entry_points =~= b.entry_points
    && a.execution_modes =~= b.execution_modes && a.debug_string_source =~= b.debug_string_source
    && a.debug_names =~= b.debug_names && a.debug_module_processed =~= b.debug_module_processed
    && a.annotations =~= b.annotations && a.types_global_values =~= b.types_global_values
    && functions_ext(a.functions, b.functions)
}
pub proof fn blocks_ext_eq(a: Seq<BlockV>, b: Seq<BlockV>) requires blocks_ext(a, b) ensures a == b {
    assert forall|i: int| 0 <= i < a.len() implies a[i] == b[i] by { assert(block_ext(a[i], b[i])); }
    assert(a =~= b);
}
pub proof fn functions_ext_eq(a: Seq<FunctionV>, b: Seq<FunctionV>) requires functions_ext(a, b) ensures a == b {
    assert forall|i: int| 0 <= i < a.len() implies a[i] == b[i] by { assert(function_ext(a[i], b[i])); blocks_ext_eq(a[i].blocks, b[i].blocks); }
    assert(a =~= b);
}
pub proof fn module_ext_eq(a: ModuleV, b: ModuleV) requires module_ext(a, b) ensures a == b { functions_ext_eq(a.functions, b.functions); }
pub proof fn blocks_view_push(bs: Seq<Block>, b: Block)
    ensures blocks_view(bs.push(b)) == blocks_view(bs).push(block_view(b)),
{ assert(blocks_view(bs.push(b)) =~= blocks_view(bs).push(block_view(b))); }
pub proof fn functions_view_push(fs: Seq<Function>, f: Function)
    ensures functions_view(fs.push(f)) == functions_view(fs).push(function_view(f)),
{ assert(functions_view(fs.push(f)) =~= functions_view(fs).push(function_view(f))); }
"""


ASSUMED = [
    "grammar::CoreInstructionTable::{get, lookup_opcode} contracts (row of the opcode; Some iff declared): assumed here, discharged by unit table_core",
    "grammar::reflect::* contracts (predicate == spec class): assumed here, discharged by unit reflect",
]
