"""unit `kani_traversal` — BOUNDED stand-in (C15; never counted as proved): the six traversal
methods of dr::Module / dr::Function (constructs.rs) and Module::assemble_into (assemble.rs) are
iterator-adapter chains that Verus cannot take.

Kani mini crate: constructs.rs (with its include!d autogen_operand.rs), assemble.rs and
utils/version.rs are the UNMODIFIED repository files pulled in with #[path]; the `grammar` module
they name is reduced to its type declarations, extracted mechanically from syntax.rs /
autogen_table.rs on every run (the lookup table itself is not needed by the code under check).

Bound: a module whose header, memory model and every one of the 11 sections / def / end / label are
symbolically present or absent, with section sizes, parameter counts and block sizes in {0,1}
(quick) or {0,1,2} (thorough), <= 2 functions x <= 2 blocks; instructions are tagged by result id.
Checked: all_inst_iter visits the tags in assembly (layout) order; global_inst_iter is its prefix
before the first function; Function::all_inst_iter is the function's slice; each _mut traversal
visits the same sequence; Module::assemble() is the header words followed by the assembly of each
visited instruction.
"""
import os
import sys
sys.path.insert(0, os.path.join(os.path.dirname(__file__), "..", "tools"))
import krun  # noqa: E402
from .common import Source, Lost  # noqa: E402

NAME = "kani_traversal"
ENGINE = "kani"

CARGO = """[package]
name = "kani_traversal"
version = "0.0.0"
edition = "2018"
[dependencies]
spirv = { path = "@REPO@/spirv" }
[workspace]
"""

LIB = """#![allow(dead_code, unused_imports, clippy::all)]
pub use spirv;
pub mod grammar {
    use crate::spirv;
    // type declarations extracted from grammar/syntax.rs and grammar/autogen_table.rs
%(GTYPES)s
    pub struct CoreInstructionTable;
    impl CoreInstructionTable {
        // the real lookup is a search in the 787-entry table; the code under check never calls it in these harnesses
        pub fn get(_opcode: spirv::Op) -> &'static Instruction<'static> { &NOP }
    }
    pub static NOP: Instruction<'static> = Instruction { opname: "Nop", opcode: spirv::Op::Nop, capabilities: &[], extensions: &[], operands: &[] };
}
pub mod utils {
    #[path = "@REPO@/rspirv/utils/version.rs"]
    pub mod version;
}
pub mod dr {
    #[path = "@REPO@/rspirv/dr/constructs.rs"]
    mod constructs;
    pub use self::constructs::{Block, Function, Instruction, Module, ModuleHeader, Operand};
}
pub mod binary {
    #[path = "@REPO@/rspirv/binary/assemble.rs"]
    mod assemble;
    pub use self::assemble::Assemble;
}

#[cfg(kani)]
mod h {
    use crate::binary::Assemble;
    use crate::dr::{Block, Function, Instruction, Module, ModuleHeader};
    const S: usize = %(S)d; // max section / parameter / block-instruction count
    const NF: usize = 2;
    const NB: usize = 2;

    // instructions are tagged 1, 2, 3, ... in LAYOUT order while the module is built, so "visits the
    // assembled sequence in order" is: the visited tags are exactly lo+1, lo+2, ..., hi
    fn inst(tag: &mut u32) -> Instruction {
        *tag += 1;
        Instruction { class: &crate::grammar::NOP, result_type: None, result_id: Some(*tag), operands: vec![] }
    }
    fn section(tag: &mut u32) -> Vec<Instruction> {
        let n: usize = kani::any();
        kani::assume(n <= S);
        let mut v = vec![];
        let mut i = 0;
        while i < n { v.push(inst(tag)); i += 1; }
        v
    }
    fn opt(tag: &mut u32) -> Option<Instruction> { if kani::any() { Some(inst(tag)) } else { None } }
    fn module(globals: &mut u32, starts: &mut [u32; NF + 1], sym_globals: bool, max_fns: usize) -> Module {
        let mut tag = 0u32;
        let mut m = Module::new();
        if kani::any() { m.header = Some(ModuleHeader::new(kani::any())); }
        if sym_globals {
            m.capabilities = section(&mut tag);
            m.extensions = section(&mut tag);
            m.ext_inst_imports = section(&mut tag);
            m.memory_model = opt(&mut tag);
            m.entry_points = section(&mut tag);
            m.execution_modes = section(&mut tag);
            m.debug_string_source = section(&mut tag);
            m.debug_names = section(&mut tag);
            m.debug_module_processed = section(&mut tag);
            m.annotations = section(&mut tag);
        }
        m.types_global_values = section(&mut tag);
        *globals = tag;
        let nf: usize = kani::any();
        kani::assume(nf <= max_fns);
        let mut f = 0;
        while f < nf {
            starts[f] = tag;
            let mut fun = Function::new();
            fun.def = opt(&mut tag);
            fun.parameters = section(&mut tag);
            let nb: usize = kani::any();
            kani::assume(nb <= NB);
            let mut b = 0;
            while b < nb {
                let mut blk = Block::new();
                blk.label = opt(&mut tag);
                blk.instructions = section(&mut tag);
                fun.blocks.push(blk);
                b += 1;
            }
            fun.end = opt(&mut tag);
            m.functions.push(fun);
            f += 1;
        }
        let mut f2 = nf;
        while f2 <= NF { starts[f2] = tag; f2 += 1; }
        m
    }
    fn visits<'a>(it: impl Iterator<Item = &'a Instruction>, lo: u32, hi: u32) -> bool {
        let mut next = lo;
        for i in it { next += 1; if i.result_id != Some(next) { return false; } }
        next == hi
    }
    fn visits_mut<'a>(it: impl Iterator<Item = &'a mut Instruction>, lo: u32, hi: u32) -> bool {
        let mut next = lo;
        for i in it { next += 1; if i.result_id != Some(next) { return false; } }
        next == hi
    }

    fn check_all(mut m: Module, globals: u32, starts: [u32; NF + 1]) {
        let total = starts[NF];
        // all_inst_iter == assembly order; global_inst_iter == the prefix before the first function; _mut: same sequences
        assert!(visits(m.all_inst_iter(), 0, total));
        assert!(visits(m.global_inst_iter(), 0, globals));
        assert!(visits_mut(m.all_inst_iter_mut(), 0, total));
        assert!(visits_mut(m.global_inst_iter_mut(), 0, globals));
        // per function: the corresponding slice
        let mut k = 0;
        while k < m.functions.len() {
            assert!(visits(m.functions[k].all_inst_iter(), starts[k], starts[k + 1]));
            assert!(visits_mut(m.functions[k].all_inst_iter_mut(), starts[k], starts[k + 1]));
            k += 1;
        }
        // assembling a module = header words ++ assembly of every instruction in that order (each is [2<<16|OpNop, tag])
        let words = m.assemble();
        let h = if m.header.is_some() { 5usize } else { 0 };
        assert!(words.len() == h + 2 * total as usize);
        if let Some(hd) = &m.header { assert!(words[0] == hd.magic_number && words[1] == hd.version && words[3] == hd.bound); }
        let mut t = 0usize;
        while t < total as usize {
            assert!(words[h + 2 * t] == (2u32 << 16) && words[h + 2 * t + 1] == (t as u32 + 1));
            t += 1;
        }
    }
    // all 11 module-level sections + memory model + header symbolic, no functions
    #[kani::proof]
    #[kani::unwind(%(UG)d)]
    fn traversals_globals_bounded() {
        let mut globals = 0u32;
        let mut starts = [0u32; NF + 1];
        let m = module(&mut globals, &mut starts, true, 0);
        check_all(m, globals, starts);
    }
    // header + types_global_values + up to NF functions x NB blocks with every optional part symbolic
    #[kani::proof]
    #[kani::unwind(%(UF)d)]
    fn traversals_functions_bounded() {
        let mut globals = 0u32;
        let mut starts = [0u32; NF + 1];
        let m = module(&mut globals, &mut starts, false, NF);
        check_all(m, globals, starts);
    }
    #[kani::proof]
    #[kani::unwind(%(U)d)]
    fn mustfail_traversal() {
        let mut m = Module::new();
        let mut t = 0u32;
        m.capabilities.push(inst(&mut t));
        m.types_global_values.push(inst(&mut t));
        let first = m.all_inst_iter().next().unwrap().result_id;
        assert!(first == Some(2)); // must be refuted: capabilities come first
    }
}
"""


def grammar_types():
    syn = Source.get("rspirv/grammar/syntax.rs")
    tab = Source.get("rspirv/grammar/autogen_table.rs")
    parts = []
    for src, kind, name in ((tab, "enum", "OperandKind"), (syn, "enum", "OperandQuantifier"), (syn, "struct", "LogicalOperand"),
                            (syn, "struct", "Instruction")):
        it = src.find(kind, name)
        parts.append("    #[derive(Clone, Copy, Debug, PartialEq, Eq, Hash)]\n    " + it.core_text.replace("\n", "\n    ")
                     if kind == "enum" else
                     ("    #[derive(Debug, PartialEq, Eq, Hash%s)]\n    " % (", Clone" if name == "LogicalOperand" else "")) + it.core_text.replace("\n", "\n    "))
    return "\n".join(parts)


def run(tier, workdir):
    S = 2 if tier == "thorough" else 1
    U = 6
    lib = LIB % {"GTYPES": grammar_types(), "S": S, "U": U, "UG": 12 * S + 5, "UF": 8 + 7 * S + 4}
    d = krun.prepare(NAME, {"Cargo.toml": CARGO, "src/lib.rs": lib}, os.path.dirname(workdir))
    hs = {"traversals_globals_bounded": {"kind": "bounded"}, "traversals_functions_bounded": {"kind": "bounded"},
          "mustfail_traversal": {"kind": "control"}}
    r = krun.run_kani(d, hs, unit=NAME, timeout=3000, jobs=3, playback=False)
    mf = r["functions"].pop(NAME + "::mustfail_traversal", None)
    rejected = mf is not None and not mf["ok"] and any(f_["item"] == "harness::mustfail_traversal" for f_ in r["failures"])
    r["failures"] = [f_ for f_ in r["failures"] if f_["item"] != "harness::mustfail_traversal"]
    r["undecided"] = [u for u in r["undecided"] if "mustfail" not in str(u.get("detail", ""))[:40]]
    r["errors"] = len([1 for f_ in r["functions"].values() if not f_["ok"]])
    r["mustfail"] = {"rejected": rejected, "failures": 1 if rejected else 0, "undecided": []}
    r["states"] = r.get("checks", 0)
    return r


def describe():
    return {"unit": NAME, "functions_under_contract": [],
            "bounded": ["dr::Module::{all_inst_iter, all_inst_iter_mut, global_inst_iter, global_inst_iter_mut}, dr::Function::{all_inst_iter, all_inst_iter_mut}, "
                        "<dr::Module as Assemble>::assemble_into: Kani on the unmodified files, every present/absent combination of the optional parts, "
                        "section/parameter/block sizes <= 1 (quick) / <= 2 (thorough), <= 2 functions x <= 2 blocks; BOUNDED, not a proof"],
            "assumptions": ["CBMC memory model; grammar lookup table replaced by its type declarations (not used by the code under check)"]}


def witness(failure, ctx):
    pb = failure.get("playback")
    return {"found": bool(pb), "exhaustive": False, "input": pb, "how": "Kani concrete playback" if pb else "no concrete values"}
