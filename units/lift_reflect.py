"""R14-style lifting of dr::Operand::additional_operands (autogen_operand.rs) into data:
   enum kinds:  {Kind: {enumerant: [(param kind, quantifier), ...]}}   (default [])
   mask kinds:  {Kind: [([flags], [(param kind, quantifier), ...]), ...]}  in source order
The text read is the real function; the lifting rule is: a `match` arm evaluates to its `vec![..]`
literal; `result.extend([F..].iter().filter(|arg| v.contains(**arg)).flat_map(|_| [L..].iter().cloned()))`
appends L once for every flag of F (in order) contained in v."""
import re
from .common import Source, Lost
from .tables import split_top

OPERAND = "rspirv/dr/autogen_operand.rs"
LOP = re.compile(r"crate::grammar::LogicalOperand\s*\{\s*kind:\s*crate::grammar::OperandKind::(\w+),\s*quantifier:\s*crate::grammar::OperandQuantifier::(\w+),?\s*\}")


def split_arms(body):
    """[(pattern text, expression text)] of a match body (handles block arms without a trailing comma)"""
    out, i, n = [], 0, len(body)
    while i < n:
        while i < n and body[i] in " \t\r\n,":
            i += 1
        if i >= n:
            break
        j = body.find("=>", i)
        if j < 0:
            raise Lost("match arm without =>: %r" % body[i:i + 40])
        pat = body[i:j].strip()
        k = j + 2
        while k < n and body[k] in " \t\r\n":
            k += 1
        depth, e, started_block = 0, k, body[k] == "{"
        while e < n:
            ch = body[e]
            if ch == '"':
                e += 1
                while body[e] != '"':
                    e += 2 if body[e] == "\\" else 1
            elif ch in "([{":
                depth += 1
            elif ch in ")]}":
                depth -= 1
                if depth == 0 and started_block and ch == "}":
                    e += 1
                    break
            elif ch == "," and depth == 0:
                break
            e += 1
        out.append((pat, body[k:e].strip()))
        i = e
    return out


def _ops(text):
    return [(m.group(1), m.group(2)) for m in LOP.finditer(text)]


def lift():
    f = Source.get(OPERAND).find("fn", "Operand::additional_operands")
    t = f.core_text
    m = re.search(r"match self \{(.*)\}\s*\}\s*$", t, re.S)
    if not m:
        raise Lost("additional_operands: unexpected shape")
    body = m.group(1)
    # top-level arms: `Self::K(v) => <expr>,` / `_ => vec![]`
    enums, masks = {}, {}
    for pat, expr in split_arms(body):
        mm = re.match(r"^Self::(\w+)\(v\)$", pat)
        if not mm:
            if pat == "_" and re.match(r"^vec!\[\]$", expr):
                continue
            raise Lost("additional_operands: unexpected arm %r" % pat[:60])
        K = mm.group(1)
        if expr.startswith("match v"):
            inner = re.match(r"^match v \{(.*)\}$", expr, re.S)
            table = {}
            for pats, rhs in split_arms(inner.group(1)):
                if not (rhs.startswith("vec![") or rhs.startswith("{")):
                    raise Lost("additional_operands %s: arm rhs %r" % (K, rhs[:40]))
                ops = _ops(rhs)
                if pats == "_":
                    if ops:
                        raise Lost("additional_operands %s: non-empty default arm" % K)
                    continue
                for p_ in pats.split("|"):
                    p_ = p_.strip()
                    pm = re.match(r"^s::%s::(\w+)$" % K, p_)
                    if not pm:
                        raise Lost("additional_operands %s: pattern %r" % (K, p_))
                    table[pm.group(1)] = ops
            enums[K] = table
        else:
            groups = []
            for gm in re.finditer(r"result\.extend\(\s*\[(.*?)\]\s*\.iter\(\)\s*\.filter\(\|arg\| v\.contains\(\*\*arg\)\)\s*\.flat_map\(\|_\| \{\s*\[(.*?)\]\s*\.iter\(\)\s*\.cloned\(\)\s*\}\),?\s*\);",
                                  expr, re.S):
                flags = [x.strip().split("::")[-1] for x in gm.group(1).split(",") if x.strip()]
                groups.append((flags, _ops(gm.group(2))))
            n_ext = len(re.findall(r"result\.extend\(", expr))
            if n_ext != len(groups):
                raise Lost("additional_operands %s: %d extend groups, %d lifted" % (K, n_ext, len(groups)))
            masks[K] = groups
    return enums, masks


if __name__ == "__main__":
    e, m = lift()
    for k, t in e.items():
        print(k, len(t), list(t.items())[:3])
    for k, g in m.items():
        print(k, g)
