"""unit `assemble` — binary/assemble.rs: Operand / Instruction / ModuleHeader / Block / Function
`assemble_into`, verbatim (C02 encoding side, C15 block/function assembly, C04 panic sites).

Spec side: `enc_operand` is generated from the *declaration* of dr::Operand (payload types, O1):
mask payload -> its bits, enum payload -> its number, Word/u32 -> the word, u64 -> low word then
high word, String -> `enc_str` (NUL-terminated, zero-padded little-endian words), Op -> its number.
`assemble_str` is all iterator adapters: contract assumed here, checked by the bounded Kani unit
kani_assemble_str on the extracted function.
"""
import re
from .common import Source, Piece, Gen, Lost, HEADER, count_clauses, enum_variants, SPIRV
from . import lib_spirv, lib_dr
from .kani_masks import mask_decls

NAME = "assemble"
FILE = "rspirv/binary/assemble.rs"
RLIMIT = 60


def operand_variants():
    """[(variant, payload type text)] of dr::Operand"""
    it = Source.get(lib_dr.OPERAND).find("enum", "Operand")
    body = it.src.text[it.body_open + 1:it.body_close]
    out = []
    for m in re.finditer(r"(\w+)\(([^)]*)\)\s*,", body):
        out.append((m.group(1), m.group(2).strip()))
    if len(out) < 60:
        raise Lost("dr::Operand: only %d variants read" % len(out))
    return out


def enc_operand_spec(enum_num=None):
    """enum_num: optional function T -> spec expression text for the number of enum value `v` (default `v as u32`)"""
    masks = set(t for t, _ in mask_decls())
    enums = set(e.name for e in Source.get(SPIRV).find_all("enum"))
    arms = []
    for v, ty in operand_variants():
        t = ty.replace("spirv::", "")
        if t in masks:
            arms.append("        dr::Operand::%s(v) => seq![v.bits_]," % v)
        elif t in enums:
            arms.append("        dr::Operand::%s(v) => seq![%s]," % (v, enum_num(t) if enum_num else "v as u32"))
        elif t in ("Word", "u32"):
            arms.append("        dr::Operand::%s(v) => seq![v]," % v)
        elif t == "u64":
            arms.append("        dr::Operand::%s(v) => seq![v as u32, (v >> 32) as u32], // low word first (`as u32` keeps the low 32 bits)" % v)
        elif t == "String":
            arms.append("        dr::Operand::%s(v) => enc_str(str_bytes(v))," % v)
        else:
            raise Lost("dr::Operand::%s: payload type %s has no encoding rule" % (v, ty))
    push_arms, facts, calls = [], [], []
    for a in arms:
        m = re.match(r"^(\s+dr::Operand::(\w+)\(v\) => )(.*?),(\s*//.*)?$", a)
        rhs = m.group(3)
        V = m.group(2)
        ty = dict(operand_variants())[V]
        mm = re.match(r"^seq!\[(.*)\]$", rhs)
        if mm:
            words = [w.strip() for w in mm.group(1).split(", ")]
            app = "s" + "".join(".push(%s)" % w for w in words)
        else:
            app = "s + " + rhs
        push_arms.append(m.group(1) + app + ",")
        facts.append("pub proof fn operand_facts_%s(s: Seq<u32>, v: %s)\n    ensures append_operand(s, dr::Operand::%s(v)) == %s, enc_operand(dr::Operand::%s(v)) == %s,\n"
                     "{ reveal(append_operand); reveal(enc_operand); }" % (V, ty, V, app, V, rhs))
        calls.append("        dr::Operand::%s(v) => { operand_facts_%s(s, v); }" % (V, V))
    out = ("// C02: the encoding the SPIR-V specification prescribes, per payload type of dr::Operand (O1)\n"
           "#[verifier::opaque]\npub open spec fn enc_operand(op: dr::Operand) -> Seq<u32> {\n    match op {\n%s\n    }\n}\n"
           "// the same encoding as an append to an existing word sequence (push by push)\n"
           "#[verifier::opaque]\npub open spec fn append_operand(s: Seq<u32>, op: dr::Operand) -> Seq<u32> {\n    match op {\n%s\n    }\n}\n"
           % ("\n".join(arms), "\n".join(push_arms)))
    # per-variant unfoldings, each in its own small query; grouped in modules so they run in parallel
    for k in range(0, len(facts), 8):
        out += ("pub mod facts_%d { use vstd::prelude::*; use crate::dr; use crate::spirv; use super::*;\n%s\n}\npub use self::facts_%d::*;\n"
                % (k, "\n".join(facts[k:k + 8]), k))
    out += ("// all variants: unfolding of both forms (no reveal here: only the per-variant lemmas)\n"
            "pub proof fn operand_facts(s: Seq<u32>, op: dr::Operand)\n    ensures append_operand(s, op) =~= s + enc_operand(op),\n{\n    match op {\n%s\n    }\n}\n"
            % "\n".join(calls))
    return out


def first_word_spec(enum_num=None):
    """`first_word(op)`: the first word of the encoding of an operand, per payload type (O1); shared with unit parser_core, which
    proves that every operand it parses has first_word == the word it was read from"""
    masks = set(t for t, _ in mask_decls())
    enums = set(e.name for e in Source.get(SPIRV).find_all("enum"))
    fw = []
    for v, ty in operand_variants():
        t = ty.replace("spirv::", "")
        fw.append("        dr::Operand::%s(v) => %s," % (v, "v.bits_" if t in masks else (enum_num(t) if enum_num else "v as u32") if t in enums
                                                        else "v" if t in ("Word", "u32") else "v as u32" if t == "u64" else "0u32"))
    return ("// first word of the encoding of an operand (enumerant number, mask bits, the word, low half of a 64-bit literal); strings: enc_str\n"
            "pub open spec fn first_word(op: dr::Operand) -> u32 {\n    match op {\n%s\n    }\n}" % "\n".join(fw))


def first_word_lemma():
    """enc_operand(op) is [first_word(op)] (64-bit literals: followed by the high half), for every non-string operand:
    one small lemma per variant (both functions opaque, revealed only there), then the dispatch"""
    per, calls = [], []
    for v, ty in operand_variants():
        if ty.replace("spirv::", "") == "String":
            calls.append("        dr::Operand::%s(v) => {}" % v)
            continue
        rhs = "seq![first_word(dr::Operand::%s(v)), (v >> 32) as u32]" % v if ty == "u64" else "seq![first_word(dr::Operand::%s(v))]" % v
        per.append("pub proof fn first_word_%s(v: %s)\n    ensures enc_operand(dr::Operand::%s(v)) =~= %s,\n{ reveal(enc_operand); reveal(first_word); }" % (v, ty, v, rhs))
        calls.append("        dr::Operand::%s(v) => { first_word_%s(v); }" % (v, v))
    out = ""
    for k in range(0, len(per), 8):
        out += ("pub mod fw_%d { use vstd::prelude::*; use crate::dr; use crate::spirv; use super::*;\n%s\n}\npub use self::fw_%d::*;\n"
                % (k, "\n".join(per[k:k + 8]), k))
    out += ("pub proof fn enc_is_first_word(op: dr::Operand)\n    requires !(op is LiteralString),\n"
            "    ensures enc_operand(op) =~= (match op { dr::Operand::LiteralBit64(v) => seq![first_word(op), (v >> 32) as u32], _ => seq![first_word(op)] }),\n"
            "{\n    match op {\n%s\n    }\n}" % "\n".join(calls))
    return out


PRELUDE = r"""
// UTF-8 bytes of a String (uninterpreted; the same function as the decoder's `utf8_of`)
pub uninterp spec fn str_bytes(s: String) -> Seq<u8>;
pub open spec fn le32_at(b: Seq<u8>, i: int) -> u32 {
    ((b[i] as u32) | ((b[i + 1] as u32) << 8) | ((b[i + 2] as u32) << 16) | ((b[i + 3] as u32) << 24)) as u32
}
pub open spec fn byte_or_zero(b: Seq<u8>, i: int) -> u8 { if 0 <= i < b.len() { b[i] } else { 0u8 } }
// NUL-terminated, zero-padded to a word boundary, little-endian: len/4 + 1 words
pub open spec fn enc_str(b: Seq<u8>) -> Seq<u32> {
    Seq::new((b.len() / 4 + 1) as nat, |k: int|
        ((byte_or_zero(b, 4 * k) as u32) | ((byte_or_zero(b, 4 * k + 1) as u32) << 8)
         | ((byte_or_zero(b, 4 * k + 2) as u32) << 16) | ((byte_or_zero(b, 4 * k + 3) as u32) << 24)) as u32)
}
// contract of assemble_str (iterator adapters): assumed here; bounded Kani check in unit kani_assemble_str
#[verifier::external_body]
pub fn assemble_str(s: &String, result: &mut Vec<u32>)
    ensures final(result)@ =~= old(result)@ + enc_str(str_bytes(*s)),
{ unimplemented!() }

pub open spec fn opt_word(o: Option<u32>) -> Seq<u32> { match o { Some(w) => seq![w], None => Seq::empty() } }
pub open spec fn enc_operands(ops: Seq<dr::Operand>, n: int) -> Seq<u32>
    decreases n,
{
    if n <= 0 { Seq::empty() } else { enc_operands(ops, n - 1) + enc_operand(ops[n - 1]) }
}
pub open spec fn inst_len(i: dr::Instruction) -> int {
    (1 + opt_word(i.result_type).len() + opt_word(i.result_id).len() + enc_operands(i.operands@, i.operands@.len() as int).len()) as int
}
// the opcode's number, hidden from queries that do not need the 787-variant cast
#[verifier::opaque]
pub open spec fn op_word(op: spirv::Op) -> u32 { op as u32 }
pub proof fn op_word_is_cast(op: spirv::Op) ensures op_word(op) == op as u32 { reveal(op_word); }
// C02: first word (word count << 16 | opcode), then result type, result id, operands in order
pub open spec fn enc_inst(i: dr::Instruction) -> Seq<u32> {
    seq![(op_word(i.class.opcode) | ((inst_len(i) as u32) << 16)) as u32] + opt_word(i.result_type) + opt_word(i.result_id)
        + enc_operands(i.operands@, i.operands@.len() as int)
}
pub open spec fn enc_insts(s: Seq<dr::Instruction>, n: int) -> Seq<u32>
    decreases n,
{
    if n <= 0 { Seq::empty() } else { enc_insts(s, n - 1) + enc_inst(s[n - 1]) }
}
pub open spec fn opt_inst(o: Option<dr::Instruction>) -> Seq<u32> { match o { Some(i) => enc_inst(i), None => Seq::empty() } }
pub open spec fn insts_fit(s: Seq<dr::Instruction>) -> bool { forall|k: int| 0 <= k < s.len() ==> inst_len(#[trigger] s[k]) <= 0xffff }
pub open spec fn enc_block(b: dr::Block) -> Seq<u32> { opt_inst(b.label) + enc_insts(b.instructions@, b.instructions@.len() as int) }
pub open spec fn block_fits(b: dr::Block) -> bool { (b.label matches Some(l) ==> inst_len(l) <= 0xffff) && insts_fit(b.instructions@) }
pub open spec fn enc_blocks(s: Seq<dr::Block>, n: int) -> Seq<u32>
    decreases n,
{
    if n <= 0 { Seq::empty() } else { enc_blocks(s, n - 1) + enc_block(s[n - 1]) }
}
pub open spec fn enc_function(f: dr::Function) -> Seq<u32> {
    opt_inst(f.def) + enc_insts(f.parameters@, f.parameters@.len() as int) + enc_blocks(f.blocks@, f.blocks@.len() as int) + opt_inst(f.end)
}
"""


def build(tier="quick", must_fail=False):
    g = Gen(NAME if not must_fail else NAME + "_mustfail")
    src = Source.get(FILE)
    g.raw(HEADER)
    g.raw("verus! {")
    lib_spirv.emit(g, with_alias=True, from_u32=False)
    lib_dr.emit_grammar(g, with_reflect=False)
    lib_dr.emit_dr(g, with_new=False)
    g.raw("pub mod binary { pub mod assemble {\nuse vstd::prelude::*;\nuse crate::dr;\nuse crate::spirv;")
    g.raw(PRELUDE)
    g.raw(enc_operand_spec())
    g.raw("#[verifier::opaque]\n" + first_word_spec().split("\n", 1)[1])
    if not must_fail:
        g.raw(first_word_lemma())

    def impl_fn(ty):
        imps = [i for i in src.find_all("impl") if i.impl_of == ty and i.impl_trait == "Assemble"]
        if len(imps) != 1:
            raise Lost("impl Assemble for dr::%s not found" % ty)
        fs = [c for c in imps[0].children if c.kind == "fn" and c.name == "assemble_into"]
        if len(fs) != 1:
            raise Lost("assemble_into of dr::%s not found" % ty)
        return fs[0]

    def emit(ty, contract, edit=None):
        f = impl_fn(ty)
        p = Piece(f)
        p.sub(r"^fn ", "pub fn ", "R20", count=1)
        # R16: v.extend([..]) of Copy words == v.extend_from_slice(&[..])
        p.sub(r"result\.extend\(\[", "extend_words(result, &[", "R16", required=False)
        if edit:
            edit(p)
        p.add_contract("    " + contract)
        g.contract_clauses += count_clauses(contract)
        g.raw("// `impl Assemble for dr::%s`: the real fn as an inherent method (R20)\nimpl dr::%s {" % (ty, ty))
        if ty in ("Instruction", "Operand", "Function"):
            g.raw("#[verifier::rlimit(200)]\n#[verifier::spinoff_prover]")
        g.emit(p, name="binary::assemble::<dr::%s as Assemble>::assemble_into" % ty)
        g.raw("}")

    g.raw("""// R16
pub fn extend_words(v: &mut Vec<u32>, s: &[u32])
    ensures final(v)@ == old(v)@ + s@, s@.len() == 2 ==> final(v)@ == old(v)@.push(s@[0]).push(s@[1]),
{ v.extend_from_slice(s); proof { if s@.len() == 2 { assert(old(v)@ + s@ =~= old(v)@.push(s@[0]).push(s@[1])); } } }
""")
    if must_fail:
        emit("ModuleHeader", "ensures false,")
    else:
        emit("ModuleHeader", """ensures final(result)@ =~= old(result)@ + seq![self.magic_number, self.version, self.generator, self.bound, self.reserved_word],""")

        def op_edit(p):
            # ghost: per-variant unfolding of the spec for the operand at hand (generated from the enum declaration)
            arms_ = "\n".join("            dr::Operand::%s(v) => { operand_facts_%s(result@, *v); }" % (V, V) for V, _ in operand_variants())
            p.insert_at("{", " proof { operand_facts(result@, *self); match self {\n%s\n            } } " % arms_, where="after", nth=1, tag="ghost")
        emit("Operand", """ensures final(result)@ == append_operand(old(result)@, *self), final(result)@ =~= old(result)@ + enc_operand(*self),""", op_edit)

        def inst_edit(p):
            p.sub(r"for operand in &self\.operands", "for operand in iter: &self.operands", "G1", count=1)
            p.insert_after_stmt("result.push(self.class.opcode", " proof { op_word_is_cast(self.class.opcode); } ")
            p.insert_after_stmt("let end =", """
        proof {
            assert(result@.len() == start + inst_len(*self));
            assert(end == inst_len(*self));
            assert(result@[start as int] == op_word(self.class.opcode));
        }
        let ghost pre = result@;
""")
            p.insert_after_stmt("result[start] |=", """
        proof {
            assert(result@ =~= pre.update(start as int, (op_word(self.class.opcode) | ((end as u32) << 16)) as u32));
        }
""")
            p.add_loop_contract(1, """            invariant
                start == old(result)@.len(),
                result@ =~= old(result)@ + seq![op_word(self.class.opcode)] + opt_word(self.result_type) + opt_word(self.result_id)
                    + enc_operands(self.operands@, iter.index@ as int),""")
        emit("Instruction", """requires inst_len(*self) <= 0xffff,
    ensures final(result)@ =~= old(result)@ + enc_inst(*self),""", inst_edit)

        def block_edit(p):
            p.sub(r"if let Some\(ref l\) = self\.label", "if let Some(l) = &self.label", "R24", count=1)
            p.sub(r"for inst in &self\.instructions", "for inst in iter: &self.instructions", "G1", count=1)
            p.add_loop_contract(1, """            invariant
                block_fits(*self),
                result@ =~= old(result)@ + opt_inst(self.label) + enc_insts(self.instructions@, iter.index@ as int),""")
        emit("Block", """requires block_fits(*self),
    ensures final(result)@ =~= old(result)@ + enc_block(*self),""", block_edit)

        def fn_edit(p):
            p.sub(r"if let Some\(ref d\) = self\.def", "if let Some(d) = &self.def", "R24", count=1)
            p.sub(r"if let Some\(ref e\) = self\.end", "if let Some(e) = &self.end", "R24", count=1)
            p.sub(r"for param in &self\.parameters", "for param in iter: &self.parameters", "G1", count=1)
            p.sub(r"for bb in &self\.blocks", "for bb in iter2: &self.blocks", "G1", count=1)
            p.add_loop_contract(1, """            invariant
                function_fits(*self),
                result@ =~= old(result)@ + opt_inst(self.def) + enc_insts(self.parameters@, iter.index@ as int),""")
            p.add_loop_contract(2, """            invariant
                function_fits(*self),
                result@ =~= old(result)@ + opt_inst(self.def) + enc_insts(self.parameters@, self.parameters@.len() as int)
                    + enc_blocks(self.blocks@, iter2.index@ as int),""")
        g.raw("""pub open spec fn function_fits(f: dr::Function) -> bool {
    (f.def matches Some(d) ==> inst_len(d) <= 0xffff) && (f.end matches Some(e) ==> inst_len(e) <= 0xffff)
    && insts_fit(f.parameters@) && forall|k: int| 0 <= k < f.blocks@.len() ==> block_fits(#[trigger] f.blocks@[k])
}""")
        emit("Function", """requires function_fits(*self),
    ensures final(result)@ =~= old(result)@ + enc_function(*self),""", fn_edit)
    g.raw("} } // mod binary::assemble")
    g.raw("} // verus!")
    g.raw("fn main() {}")
    return g


def describe():
    return {
        "unit": NAME,
        "functions_under_contract": ["binary::assemble::<dr::%s as Assemble>::assemble_into" % t for t in
                                     ("ModuleHeader", "Operand", "Instruction", "Block", "Function")],
        "assumptions": lib_spirv.ASSUMED[1:] + [
            "assemble_str contract (NUL-terminated zero-padded little-endian words): assumed here; bounded Kani check (<= 9 bytes) in unit kani_assemble_str",
            "instructions longer than 0xFFFF words are outside the claim (not representable in the format)",
            "R16: Vec::extend([words]) appends the words in order; R20: trait impl bodies verified as inherent methods",
            "R24: `match *self` with by-value Copy bindings == `match self` with `*v`; `Some(ref x) = opt` == `Some(x) = &opt`",
            "Module::assemble_into (uses the iterator chain global_inst_iter) is not in this unit: see C15",
        ],
    }


# ---------------------------------------------------------------------------------------------
# witness search (C02 / C15): hand-built instructions with operands of every encoding class (strings of every UTF-8
# length mod 4 incl. multi-byte characters, 64-bit literals, enumerants, masks, ids), assembled with the REAL assembler:
# the first word's count is the number of words emitted, the words are the prescribed encoding (computed here independently),
# and parsing them back (real parser) yields the same instruction. Blocks / functions with absent labels and defs.
# ---------------------------------------------------------------------------------------------
WITNESS_PROG = r"""// generated by /verif/units/assemble.py
#![allow(unused)]
use rspirv::binary::Assemble;
use rspirv::dr::{self, Operand};
use rspirv::spirv;

fn enc_str(s: &str) -> Vec<u32> {
    let mut b = s.as_bytes().to_vec();
    b.push(0);
    while b.len() % 4 != 0 { b.push(0); }
    b.chunks(4).map(|c| u32::from_le_bytes([c[0], c[1], c[2], c[3]])).collect()
}
fn enc(op: &Operand) -> Vec<u32> {
    match op {
        Operand::LiteralString(s) => enc_str(s),
        Operand::LiteralBit64(v) => vec![*v as u32, (*v >> 32) as u32],
        Operand::LiteralBit32(v) => vec![*v],
        Operand::IdRef(v) | Operand::IdScope(v) | Operand::IdMemorySemantics(v) | Operand::LiteralExtInstInteger(v) => vec![*v],
        Operand::StorageClass(v) => vec![*v as u32],
        Operand::Decoration(v) => vec![*v as u32],
        Operand::ExecutionModel(v) => vec![*v as u32],
        Operand::MemoryAccess(v) => vec![v.bits()],
        Operand::FunctionControl(v) => vec![v.bits()],
        Operand::Capability(v) => vec![*v as u32],
        Operand::SourceLanguage(v) => vec![*v as u32],
        _ => vec![0xdead_beef],
    }
}
fn check(tag: &str, i: &dr::Instruction, bad: &mut u32) {
    let w = i.assemble();
    let mut want = vec![0u32];
    if let Some(t) = i.result_type { want.push(t); }
    if let Some(r) = i.result_id { want.push(r); }
    for o in &i.operands { want.extend(enc(o)); }
    want[0] = ((want.len() as u32) << 16) | (i.class.opcode as u32);
    if w != want { *bad += 1; println!("MISMATCH {} assembled {:x?} prescribed {:x?}", tag, w, want); return; }
    if (w[0] >> 16) as usize != w.len() { *bad += 1; println!("MISMATCH {} word count {} but {} words emitted", tag, w[0] >> 16, w.len()); }
    // parse back
    let mut all = vec![0x07230203u32, 0x00010500, 0, 100, 0];
    all.extend_from_slice(&w);
    struct C(Vec<dr::Instruction>);
    impl rspirv::binary::Consumer for C {
        fn initialize(&mut self) -> rspirv::binary::ParseAction { rspirv::binary::ParseAction::Continue }
        fn finalize(&mut self) -> rspirv::binary::ParseAction { rspirv::binary::ParseAction::Continue }
        fn consume_header(&mut self, _h: dr::ModuleHeader) -> rspirv::binary::ParseAction { rspirv::binary::ParseAction::Continue }
        fn consume_instruction(&mut self, i: dr::Instruction) -> rspirv::binary::ParseAction { self.0.push(i); rspirv::binary::ParseAction::Continue }
    }
    let mut c = C(vec![]);
    match rspirv::binary::parse_words(&all, &mut c) {
        Ok(()) => { if c.0.len() != 1 || c.0[0] != *i { *bad += 1; println!("MISMATCH {} parsed back as {:?}", tag, c.0); } }
        Err(e) => { *bad += 1; println!("MISMATCH {} assembled words are rejected: {:?}", tag, e); }
    }
}
fn main() {
    let mut bad = 0u32;
    let strings = ["", "a", "ab", "abc", "abcd", "abcde", "abcdefg", "abcdefgh", "\u{e9}", "\u{e9}\u{e9}", "\u{e9}\u{e9}\u{e9}", "\u{65e5}\u{672c}\u{8a9e}",
                   "a\u{e9}", "ab\u{e9}\u{e9}c", "\u{1f600}", "x\u{1f600}y\u{1f600}", "\u{e9}\u{e9}\u{e9}\u{e9}\u{e9}\u{e9}\u{e9}"];
    for s in strings {
        check(&format!("OpName {:?}", s), &dr::Instruction::new(spirv::Op::Name, None, None, vec![Operand::IdRef(1), Operand::LiteralString(s.to_string())]), &mut bad);
        check(&format!("OpEntryPoint {:?}", s), &dr::Instruction::new(spirv::Op::EntryPoint, None, None,
            vec![Operand::ExecutionModel(spirv::ExecutionModel::Fragment), Operand::IdRef(4), Operand::LiteralString(s.to_string()), Operand::IdRef(200), Operand::IdRef(0xffff_fff0)]), &mut bad);
        check(&format!("OpString {:?}", s), &dr::Instruction::new(spirv::Op::String, None, Some(9), vec![Operand::LiteralString(s.to_string())]), &mut bad);
        check(&format!("OpSource {:?}", s), &dr::Instruction::new(spirv::Op::Source, None, None,
            vec![Operand::SourceLanguage(spirv::SourceLanguage::GLSL), Operand::LiteralBit32(450), Operand::IdRef(3), Operand::LiteralString(s.to_string())]), &mut bad);
    }
    check("OpStore aligned", &dr::Instruction::new(spirv::Op::Store, None, None,
        vec![Operand::IdRef(1), Operand::IdRef(2), Operand::MemoryAccess(spirv::MemoryAccess::ALIGNED | spirv::MemoryAccess::VOLATILE), Operand::LiteralBit32(16)]), &mut bad);
    check("OpVariable", &dr::Instruction::new(spirv::Op::Variable, Some(3), Some(4), vec![Operand::StorageClass(spirv::StorageClass::Function), Operand::IdRef(9)]), &mut bad);
    check("OpDecorate SpecId", &dr::Instruction::new(spirv::Op::Decorate, None, None, vec![Operand::IdRef(1), Operand::Decoration(spirv::Decoration::SpecId), Operand::LiteralBit32(0xffff_fffe)]), &mut bad);
    check("OpCapability", &dr::Instruction::new(spirv::Op::Capability, None, None, vec![Operand::Capability(spirv::Capability::Shader)]), &mut bad);
    check("OpFunction", &dr::Instruction::new(spirv::Op::Function, Some(1), Some(2), vec![Operand::FunctionControl(spirv::FunctionControl::INLINE | spirv::FunctionControl::PURE), Operand::IdRef(3)]), &mut bad);
    check("OpNop", &dr::Instruction::new(spirv::Op::Nop, None, None, vec![]), &mut bad);
    // 64-bit literals: low word first (checked at the word level only: parsing a context-dependent literal needs its type)
    for v in [0u64, 1, 0xffff_ffff, 0x1_0000_0000, 0x8000_0000_0000_0001, u64::MAX] {
        let i = dr::Instruction::new(spirv::Op::Constant, Some(1), Some(2), vec![Operand::LiteralBit64(v)]);
        let w = i.assemble();
        if w != vec![(5u32 << 16) | 43, 1, 2, v as u32, (v >> 32) as u32] { bad += 1; println!("MISMATCH OpConstant {:#x}: {:x?}", v, w); }
    }
    // blocks and functions with absent parts: assembly is the concatenation of what is present
    let nop = dr::Instruction::new(spirv::Op::Nop, None, None, vec![]);
    let ret = dr::Instruction::new(spirv::Op::Return, None, None, vec![]);
    let lab = dr::Instruction::new(spirv::Op::Label, None, Some(5), vec![]);
    let par = dr::Instruction::new(spirv::Op::FunctionParameter, Some(1), Some(6), vec![]);
    let def = dr::Instruction::new(spirv::Op::Function, Some(1), Some(2), vec![Operand::FunctionControl(spirv::FunctionControl::NONE), Operand::IdRef(3)]);
    let end = dr::Instruction::new(spirv::Op::FunctionEnd, None, None, vec![]);
    for with_label in [false, true] { for n in 0..3usize {
        let b = dr::Block { label: if with_label { Some(lab.clone()) } else { None }, instructions: (0..n).map(|k| if k % 2 == 0 { nop.clone() } else { ret.clone() }).collect() };
        let mut want = vec![];
        if with_label { want.extend(lab.assemble()); }
        for i in &b.instructions { want.extend(i.assemble()); }
        if b.assemble() != want { bad += 1; println!("MISMATCH Block label={} n={}: {:x?} vs {:x?}", with_label, n, b.assemble(), want); }
        for with_def in [false, true] { for with_end in [false, true] { for np in 0..3usize {
            let f = dr::Function { def: if with_def { Some(def.clone()) } else { None }, end: if with_end { Some(end.clone()) } else { None },
                                   parameters: (0..np).map(|_| par.clone()).collect(), blocks: vec![b.clone(), b.clone()] };
            let mut wf = vec![];
            if with_def { wf.extend(def.assemble()); }
            for p in &f.parameters { wf.extend(p.assemble()); }
            wf.extend(want.clone()); wf.extend(want.clone());
            if with_end { wf.extend(end.assemble()); }
            if f.assemble() != wf { bad += 1; println!("MISMATCH Function def={} end={} params={} label={} n={}", with_def, with_end, np, with_label, n); }
        } } }
    } }
    println!("checked, {} mismatches", bad);
}
"""


def witness(failure, ctx):
    p, err = ctx["vgen"]("asm_witness", WITNESS_PROG, [])
    if p is None:
        return {"found": False, "error": err}
    lines = p.stdout.splitlines()
    mm = [l for l in lines if l.startswith("MISMATCH")]
    if p.returncode != 0 and not mm:
        mm = ["the program panicked: " + p.stderr[-300:]]
    return {"found": bool(mm), "exhaustive": False, "input": mm[:5], "observed": lines[-1:],
            "how": "generated program: hand-built instructions / blocks / functions assembled by the real assembler, compared with the prescribed encoding and parsed back"}
