"""unit `decoder` — every method of `Decoder` (decoder.rs) and the 56 generated typed requests
(autogen_decode_operand.rs) under contract (C11; panic obligations feed C04).

View of a decoder: (bytes@, offset, limit). Representation invariant wf: offset <= bytes.len()
— required and ensured by every method: this is C11's "never beyond the end of the buffer".
"""
import re
from .common import (Source, Piece, Gen, Lost, HEADER, read_contract, count_clauses)
from . import lib_spirv

NAME = "decoder"
DEC = "rspirv/binary/decoder.rs"
GEN = "rspirv/binary/autogen_decode_operand.rs"
ERR = "rspirv/binary/autogen_error.rs"

# ---------------------------------------------------------------------------------------------
# contracts (written from the statement of C11)
# ---------------------------------------------------------------------------------------------
WF = "old(self).wf()"

C = {}
C["new"] = ("r", """
    requires bytes@.len() <= isize::MAX,
    ensures r.wf(), r.bytes@ == bytes@, r.offset == 0, r.limit is None,""")
C["offset"] = ("r", """
    ensures r == self.offset,""")
C["has_limit"] = ("r", """
    ensures r == (self.limit is Some),""")
C["limit_reached"] = ("r", """
    ensures r == (self.limit == Some(0usize)),""")
C["set_limit"] = (None, """
    ensures final(self).limit == Some(num_words), final(self).offset == old(self).offset,
        final(self).bytes == old(self).bytes,""")
C["clear_limit"] = (None, """
    ensures final(self).limit is None, final(self).offset == old(self).offset,
        final(self).bytes == old(self).bytes,""")
# word(): the three-way postcondition of C11
C["word"] = ("r", """
    requires old(self).wf(),
    ensures
        final(self).wf(), final(self).bytes == old(self).bytes,
        // success iff the limit is not exhausted and four bytes are left
        (r is Ok) <==> (old(self).limit != Some(0usize) && old(self).offset + 4 <= old(self).bytes@.len()),
        r matches Ok(w) ==> (
            w == le32(old(self).bytes@, old(self).offset as int)
            && final(self).offset == old(self).offset + 4
            && (old(self).limit matches Some(l) ==> final(self).limit == Some((l - 1) as usize))
            && (old(self).limit is None ==> final(self).limit is None)),
        // exhausted limit: LimitReached(offset), nothing changes
        old(self).limit == Some(0usize) ==> (r == Err::<spirv::Word, Error>(Error::LimitReached(old(self).offset))
            && final(self).offset == old(self).offset && final(self).limit == old(self).limit),
        // not enough bytes: StreamExpected(offset), offset unchanged
        (old(self).limit != Some(0usize) && old(self).offset + 4 > old(self).bytes@.len()) ==> (
            r == Err::<spirv::Word, Error>(Error::StreamExpected(old(self).offset))
            && final(self).offset == old(self).offset),
        // the limit never grows and is charged at most one word
        old(self).limit matches Some(l) ==> (final(self).limit matches Some(l2) && l2 <= l && l - l2 <= 1),
        old(self).limit is None ==> final(self).limit is None,""")
C["words"] = ("r", """
    requires old(self).wf(),
    ensures
        final(self).wf(), final(self).bytes == old(self).bytes,
        r matches Ok(ws) ==> (
            ws@.len() == n
            && final(self).offset == old(self).offset + 4 * n
            && (forall|i: int| 0 <= i < n ==> #[trigger] ws@[i] == le32(old(self).bytes@, old(self).offset + 4 * i))
            && (old(self).limit matches Some(l) ==> (l >= n && final(self).limit == Some((l - n) as usize)))
            && (old(self).limit is None ==> final(self).limit is None)),
        // without a limit: success iff all n words lie inside the buffer
        old(self).limit is None ==> ((r is Ok) <==> old(self).offset + 4 * n <= old(self).bytes@.len()),
        final(self).offset >= old(self).offset,
        old(self).limit matches Some(l) ==> (final(self).limit matches Some(l2) && l2 <= l
            && (final(self).offset - old(self).offset) <= 4 * (l - l2)),
        old(self).limit is None ==> final(self).limit is None,""")
DELEG = """
    requires old(self).wf(),
    ensures
        final(self).wf(), final(self).bytes == old(self).bytes,
        (r is Ok) <==> (old(self).limit != Some(0usize) && old(self).offset + 4 <= old(self).bytes@.len()),
        r matches Ok(w) ==> (w == le32(old(self).bytes@, old(self).offset as int)
            && final(self).offset == old(self).offset + 4
            && (old(self).limit matches Some(l) ==> final(self).limit == Some((l - 1) as usize))
            && (old(self).limit is None ==> final(self).limit is None)),
        r is Err ==> final(self).offset == old(self).offset,
        old(self).limit == Some(0usize) ==> r == Err::<spirv::Word, Error>(Error::LimitReached(old(self).offset)),
        old(self).limit matches Some(l) ==> (final(self).limit matches Some(l2) && l2 <= l && l - l2 <= 1),
        old(self).limit is None ==> final(self).limit is None,"""
for n_ in ("id", "bit32", "ext_inst_integer"):
    C[n_] = ("r", DELEG)
C["bit64"] = ("r", """
    requires old(self).wf(),
    ensures
        final(self).wf(), final(self).bytes == old(self).bytes,
        r matches Ok(v) ==> (
            // low word first
            v == ((le32(old(self).bytes@, old(self).offset + 4) as u64) << 32) | (le32(old(self).bytes@, old(self).offset as int) as u64)
            && final(self).offset == old(self).offset + 8
            && (old(self).limit matches Some(l) ==> (l >= 2 && final(self).limit == Some((l - 2) as usize)))
            && (old(self).limit is None ==> final(self).limit is None)),
        (r is Ok) <==> ((old(self).limit matches Some(l) ==> l >= 2) && old(self).offset + 8 <= old(self).bytes@.len()),
        final(self).offset >= old(self).offset,
        old(self).limit matches Some(l) ==> (final(self).limit matches Some(l2) && l2 <= l
            && (final(self).offset - old(self).offset) <= 4 * (l - l2)),
        old(self).limit is None ==> final(self).limit is None,""")
# string(): C11 — NUL-terminated, whole words, charged to the limit, never past the limit/buffer
C["string"] = ("r", """
    requires old(self).wf(),
    ensures
        final(self).wf(), final(self).bytes == old(self).bytes,
        r matches Ok(s) ==> (exists|k: int| 0 <= k
            && old(self).offset + k < old(self).bytes@.len()
            && #[trigger] old(self).bytes@[old(self).offset + k] == 0u8
            && (forall|j: int| 0 <= j < k ==> #[trigger] old(self).bytes@[old(self).offset + j] != 0u8)
            && utf8_of(s) == old(self).bytes@.subrange(old(self).offset as int, old(self).offset + k)
            && final(self).offset == old(self).offset + 4 * (k / 4 + 1)
            && (old(self).limit matches Some(l) ==> (k / 4 + 1 <= l && final(self).limit == Some((l - (k / 4 + 1)) as usize)))
            && (old(self).limit is None ==> final(self).limit is None)),
        r is Err ==> (final(self).offset == old(self).offset && final(self).limit == old(self).limit),
        final(self).offset >= old(self).offset,
        old(self).limit matches Some(l) ==> (final(self).limit matches Some(l2) && l2 <= l
            && (final(self).offset - old(self).offset) <= 4 * (l - l2)),
        old(self).limit is None ==> final(self).limit is None,""")


def typed_contract(T, is_mask, errvar, enum_num=None):
    val = "v.bits_" if is_mask else (enum_num(T) if enum_num else "v as u32")
    known = ("(w & !spirv::%s::all_bits() == 0)" % T) if is_mask else ("spirv::declared_%s(w)" % T)
    return """
    requires old(self).wf(),
    ensures
        final(self).wf(), final(self).bytes == old(self).bytes,
        // Ok(v): exactly one word consumed and v is that word
        r matches Ok(v) ==> (%(val)s == le32(old(self).bytes@, old(self).offset as int)
            && old(self).offset + 4 <= old(self).bytes@.len()
            && final(self).offset == old(self).offset + 4
            && (old(self).limit matches Some(l) ==> (l >= 1 && final(self).limit == Some((l - 1) as usize)))
            && (old(self).limit is None ==> final(self).limit is None)),
        // success iff a word is available and it is a declared value
        (r is Ok) <==> (old(self).limit != Some(0usize) && old(self).offset + 4 <= old(self).bytes@.len()
            && ({ let w = le32(old(self).bytes@, old(self).offset as int); %(known)s })),
        // unknown value: the error carries the offset of the word and the word
        (old(self).limit != Some(0usize) && old(self).offset + 4 <= old(self).bytes@.len()
            && !({ let w = le32(old(self).bytes@, old(self).offset as int); %(known)s })) ==>
            r == Err::<spirv::%(T)s, Error>(Error::%(errvar)s(old(self).offset, le32(old(self).bytes@, old(self).offset as int))),
        // no word available: an error and nothing consumed
        !(old(self).limit != Some(0usize) && old(self).offset + 4 <= old(self).bytes@.len()) ==>
            (r == Err::<spirv::%(T)s, Error>(Error::StreamExpected(old(self).offset)) && final(self).offset == old(self).offset),
        final(self).offset >= old(self).offset,
        old(self).limit matches Some(l) ==> (final(self).limit matches Some(l2) && l2 <= l && l - l2 <= 1
            && (final(self).offset - old(self).offset) <= 4 * (l - l2)),
        old(self).limit is None ==> final(self).limit is None,""" % {"val": val, "known": known, "T": T, "errvar": errvar}


PRELUDE = r"""
// ---- spec vocabulary -------------------------------------------------------------------------
pub open spec fn le32(b: Seq<u8>, i: int) -> u32 {
    ((b[i] as u32) | ((b[i + 1] as u32) << 8) | ((b[i + 2] as u32) << 16) | ((b[i + 3] as u32) << 24)) as u32
}
// R8: the bytes a String holds (std's UTF-8 encoding), uninterpreted
pub uninterp spec fn utf8_of(s: String) -> Seq<u8>;
pub uninterp spec fn fmt_of(e: Utf8Error) -> String;
pub struct Utf8Error { pub valid_up_to: usize }

// ---- catalogue stubs (std), contract-only -----------------------------------------------------
// R29: Vec::<u32>::with_capacity(n): std panics with "capacity overflow" exactly when 4 * n > isize::MAX
pub fn vec_with_capacity_u32(n: usize) -> (r: Vec<u32>)
    requires 4 * n <= isize::MAX,
    ensures r@.len() == 0,
{ Vec::new() }
// R5: &a[i..j]  (std panics exactly outside this precondition)
#[verifier::external_body]
pub fn slice_subrange<'a>(a: &'a [u8], i: usize, j: usize) -> (r: &'a [u8])
    requires i <= j <= a@.len(),
    ensures r@ == a@.subrange(i as int, j as int),
{ &a[i..j] }
// R5: &a[i..]
#[verifier::external_body]
pub fn slice_from<'a>(a: &'a [u8], i: usize) -> (r: &'a [u8])
    requires i <= a@.len(),
    ensures r@ == a@.subrange(i as int, a@.len() as int),
{ &a[i..] }
// R5: &a[..j]
#[verifier::external_body]
pub fn slice_to<'a>(a: &'a [u8], j: usize) -> (r: &'a [u8])
    requires j <= a@.len(),
    ensures r@ == a@.subrange(0, j as int),
{ &a[..j] }
// R6: u32::from_le_bytes(s.try_into().unwrap())
#[verifier::external_body]
pub fn le_word(s: &[u8]) -> (r: u32)
    requires s@.len() == 4,
    ensures r == le32(s@, 0),
{ u32::from_le_bytes(s.try_into().unwrap()) }
// R7: s.iter().position(|&c| c == 0)
#[verifier::external_body]
pub fn position_nul(s: &[u8]) -> (r: Option<usize>)
    ensures
        r matches Some(k) ==> (k < s@.len() && s@[k as int] == 0u8 && forall|j: int| 0 <= j < k ==> s@[j] != 0u8),
        r is None ==> forall|j: int| 0 <= j < s@.len() ==> s@[j] != 0u8,
{ s.iter().position(|&c| c == 0) }
// R8: str::from_utf8 + to_string: on success the String holds exactly the given bytes
#[verifier::external_body]
pub fn from_utf8_owned(s: &[u8]) -> (r: result::Result<String, Utf8Error>)
    ensures r matches Ok(st) ==> utf8_of(st) == s@,
{ unimplemented!() }
#[verifier::external_body]
pub fn format_utf8_error(e: Utf8Error) -> (r: String)
    ensures r == fmt_of(e),
{ unimplemented!() }
"""

LEMMAS = r"""
// ---- C11: limit lemma over request histories (uses only the contracts) -------------------------
pub enum Req { Word, Words(usize), Bit64, Str, Typed }

pub struct St { pub offset: int, pub limit: Option<int> }

// what every request's contract guarantees about (offset, limit), as a relation
pub open spec fn step_ok(a: St, b: St) -> bool {
    &&& b.offset >= a.offset
    &&& (a.limit matches Some(l) ==> (b.limit matches Some(l2) && 0 <= l2 <= l && (b.offset - a.offset) <= 4 * (l - l2)))
    &&& (a.limit is None ==> b.limit is None)
}
pub open spec fn run_ok(h: Seq<St>) -> bool {
    forall|i: int| 0 <= i < h.len() - 1 ==> step_ok(#[trigger] h[i], h[i + 1])
}
// after set_limit(n): at most n further words can be consumed, whatever the request sequence
pub proof fn limit_lemma(h: Seq<St>, n: int)
    requires h.len() >= 1, run_ok(h), h[0].limit == Some(n), n >= 0,
    ensures
        h.last().limit matches Some(l) && 0 <= l <= n && h.last().offset - h[0].offset <= 4 * (n - l),
    decreases h.len(),
{
    if h.len() > 1 {
        let h2 = h.drop_last();
        assert forall|i: int| 0 <= i < h2.len() - 1 implies step_ok(#[trigger] h2[i], h2[i + 1]) by {
            assert(h2[i] == h[i]); assert(h2[i + 1] == h[i + 1]);
        }
        limit_lemma(h2, n);
        assert(step_ok(h[h.len() - 2], h[h.len() - 1]));
        assert(h2.last() == h[h.len() - 2]);
    }
}
"""


def emit_error_enum(g):
    src = Source.get(ERR)
    e = src.find("enum", "Error")
    g.raw("#[derive(PartialEq, Eq)]")
    g.emit(Piece(e), name="binary::autogen_error::Error", under_contract=False)


def typed_requests():
    """[(fn item, T, is_mask, error variant)] of autogen_decode_operand.rs"""
    src = Source.get(GEN)
    out = []
    for imp in src.find_all("impl", lambda i: i.impl_of == "Decoder"):
        for f in imp.children:
            if f.kind != "fn":
                continue
            t = f.core_text
            m = re.search(r"spirv::(\w+)::(from_u32|from_bits)\(word\)\s*\.ok_or\(\s*Error::(\w+)\(", t)
            if not m:
                raise Lost("typed request %s: unexpected shape" % f.name)
            out.append((f, m.group(1), m.group(2) == "from_bits", m.group(3)))
    return out


def build(tier="quick", must_fail=False):
    g = Gen(NAME if not must_fail else NAME + "_mustfail")
    g.raw(HEADER)
    g.raw("verus! {")
    lib_spirv.emit(g, with_alias=False)
    g.raw("pub mod binary {")
    g.raw("use vstd::prelude::*;")
    g.raw("use crate::spirv;")
    g.raw("pub mod autogen_error {\nuse vstd::prelude::*;\nuse crate::spirv;")
    emit_error_enum(g)
    g.raw("}")
    g.raw("pub use self::autogen_error::Error as DecodeError;")
    g.raw("pub mod decoder {")
    g.raw("use vstd::prelude::*;")
    g.raw("use crate::spirv;")
    g.raw("use super::DecodeError as Error;")
    g.raw("use std::result;")
    src = Source.get(DEC)
    g.emit(Piece(src.find("type", "Result")), name="decoder::Result", under_contract=False)
    g.emit(Piece(src.find("const", "WORD_NUM_BYTES")), name="decoder::WORD_NUM_BYTES", under_contract=False)
    g.raw(PRELUDE)
    # struct (R15: fields made pub so contracts of pub fns can name them)
    st = Piece(src.find("struct", "Decoder"))
    st.sub(r"(\n\s*)(bytes|offset|limit):", r"\1pub \2:", "R15", count=3)
    g.emit(st, name="decoder::Decoder", under_contract=False)
    g.raw("impl<'a> Decoder<'a> {\n    // second conjunct: Rust objects are at most isize::MAX bytes (language invariant, assumed at `new`)\n    pub open spec fn wf(&self) -> bool { self.offset <= self.bytes@.len() && self.bytes@.len() <= isize::MAX }\n}")

    def method(name, hdr, edit=None):
        f = src.find("fn", "Decoder::" + name)
        p = Piece(f)
        rname, contract = C[name]
        if must_fail and name == "word":
            contract = contract.replace("final(self).wf(),", "final(self).wf(), false,", 1)
        if rname:
            p.name_result(rname)
        if edit:
            edit(p)
        p.add_contract(contract.strip("\n"))
        g.contract_clauses += count_clauses(contract)
        g.raw(hdr + " {")
        g.emit(p, name="binary::decoder::Decoder::" + name)
        g.raw("}")

    def word_edit(p):
        # R5+R6: Word::from_le_bytes(self.bytes[a..b].try_into().unwrap())
        p.rewrite_slices()

    def words_edit(p):
        # G1: name Verus' ghost iterator so the invariant can mention how many rounds are done
        p.sub(r"for _ in 0\.\.n", "for _ in iter: 0..n", "G1", count=1)
        # R29: Vec::with_capacity(n) panics ("capacity overflow") when n elements exceed isize::MAX bytes: stated as a precondition
        p.sub(r"Vec::with_capacity\(", "vec_with_capacity_u32(", "R29", required=False)
        p.add_loop_contract(1, """
            invariant
                self.wf(), self.bytes == old(self).bytes,
                words@.len() == iter.index@,
                self.offset == old(self).offset + 4 * iter.index@,
                forall|i: int| 0 <= i < iter.index@ ==> #[trigger] words@[i] == le32(old(self).bytes@, old(self).offset + 4 * i),
                old(self).limit matches Some(l) ==> (l >= iter.index@ && self.limit == Some((l - iter.index@) as usize)),
                old(self).limit is None ==> self.limit is None,""")

    def string_edit(p):
        # R5: every slice expression of the function, whatever its shape
        p.rewrite_slices()
        # R7: position of the first NUL
        p.sub(r"(\w+)\.iter\(\)\.position\(\|&c\| c == 0\)", r"position_nul(\1)", "R7", count=1)
        # R8: utf8 validation + owned copy; error text
        p.sub(r"str::from_utf8\(", "from_utf8_owned(", "R8", count=1)
        p.sub(r"format!\(\"\{\}\", e\)", "format_utf8_error(e)", "R8", count=1)
        p.sub(r"Ok\(result\.to_string\(\)\)", "Ok(result)", "R8", count=1)
        # ghost: witness for the existential of the postcondition (k = first_null_byte)
        p.insert_at("Ok(result.to_string())", """proof {
            let k = first_null_byte as int;
            let o = old(self).offset as int;
            assert(slice@ =~= old(self).bytes@.subrange(o, o + slice@.len()));
            assert(slice@.subrange(0, k) =~= old(self).bytes@.subrange(o, o + k));
            assert(old(self).bytes@[o + k] == slice@[k]);
            assert forall|j: int| 0 <= j < k implies #[trigger] old(self).bytes@[o + j] != 0u8 by {
                assert(slice@[j] == old(self).bytes@[o + j]);
            }
        }
        """, where="before", tag="ghost")

    if must_fail:
        for n_ in ("has_limit", "limit_reached"):
            method(n_, "impl Decoder<'_>")
        method("word", "impl<'a> Decoder<'a>", word_edit)
    else:
        method("new", "impl<'a> Decoder<'a>")
        method("offset", "impl<'a> Decoder<'a>")
        method("set_limit", "impl Decoder<'_>")
        method("clear_limit", "impl Decoder<'_>")
        method("has_limit", "impl Decoder<'_>")
        method("limit_reached", "impl Decoder<'_>")
        method("word", "impl<'a> Decoder<'a>", word_edit)
        method("words", "impl<'a> Decoder<'a>", words_edit)
        method("id", "impl Decoder<'_>")
        method("bit32", "impl Decoder<'_>")
        method("ext_inst_integer", "impl Decoder<'_>")
        method("bit64", "impl Decoder<'_>")
        method("string", "impl Decoder<'_>", string_edit)
        reqs = typed_requests()
        g.raw("impl Decoder<'_> {")
        for f, T, is_mask, errvar in reqs:
            p = Piece(f)
            p.name_result("r")
            c = typed_contract(T, is_mask, errvar)
            p.add_contract(c.strip("\n"))
            g.contract_clauses += count_clauses(c)
            g.emit(p, name="binary::decoder::Decoder::" + f.name)
        g.raw("}")
        g.n_typed = len(reqs)
        g.raw(LEMMAS)
    g.raw("} // mod decoder")
    g.raw("} // mod binary")
    g.raw("} // verus!")
    g.raw("fn main() {}")
    return g


def emit_stubs(g, enum_num=None):
    """`mod decoder` with every Decoder method contract-only (external_body), same contracts as this
    unit proves on the real bodies — for units that call the decoder (parser_core)."""
    g.raw("pub mod autogen_error {\nuse vstd::prelude::*;\nuse crate::spirv;")
    emit_error_enum(g)
    g.raw("}")
    g.raw("pub use self::autogen_error::Error as DecodeError;")
    g.raw("pub mod decoder {")
    g.raw("use vstd::prelude::*;\nuse crate::spirv;\nuse super::DecodeError as Error;\nuse std::result;")
    src = Source.get(DEC)
    g.emit(Piece(src.find("type", "Result")), name="decoder::Result", under_contract=False)
    g.raw("pub open spec fn le32(b: Seq<u8>, i: int) -> u32 {\n"
          "    ((b[i] as u32) | ((b[i + 1] as u32) << 8) | ((b[i + 2] as u32) << 16) | ((b[i + 3] as u32) << 24)) as u32\n}\n"
          "pub uninterp spec fn utf8_of(s: String) -> Seq<u8>;")
    st = Piece(src.find("struct", "Decoder"))
    st.sub(r"(\n\s*)(bytes|offset|limit):", r"\1pub \2:", "R15", count=3)
    g.emit(st, name="decoder::Decoder", under_contract=False)
    g.raw("impl<'a> Decoder<'a> {\n    pub open spec fn wf(&self) -> bool { self.offset <= self.bytes@.len() && self.bytes@.len() <= isize::MAX }\n}")
    g.raw("// contracts discharged on the real bodies by unit decoder")
    hdrs = {"new": "impl<'a> Decoder<'a>", "offset": "impl<'a> Decoder<'a>", "word": "impl<'a> Decoder<'a>", "words": "impl<'a> Decoder<'a>"}
    for name in ("new", "offset", "set_limit", "clear_limit", "has_limit", "limit_reached", "word", "words", "id", "bit32",
                 "ext_inst_integer", "bit64", "string"):
        f = src.find("fn", "Decoder::" + name)
        sig = f.core_text[:f.body_open - f.head_start].rstrip()
        rname, contract = C[name]
        if rname:
            sig = re.sub(r"->\s*(.+)$", lambda m: "-> (%s: %s)" % (rname, m.group(1).strip()), sig, flags=re.S)
        g.raw("%s {\n#[verifier::external_body]\n%s\n%s\n{ unimplemented!() }\n}" % (hdrs.get(name, "impl Decoder<'_>"), sig, contract.strip("\n")))
    g.raw("impl Decoder<'_> {")
    for f, T, is_mask, errvar in typed_requests():
        sig = f.core_text[:f.body_open - f.head_start].rstrip()
        sig = re.sub(r"->\s*(.+)$", lambda m: "-> (r: %s)" % m.group(1).strip(), sig, flags=re.S)
        g.raw("#[verifier::external_body]\n%s\n%s\n{ unimplemented!() }" % (sig, typed_contract(T, is_mask, errvar, enum_num).strip("\n")))
    g.raw("}")
    g.raw("} // mod decoder")


def describe():
    names = ["new", "offset", "word", "words", "set_limit", "clear_limit", "has_limit", "limit_reached", "id",
             "string", "bit32", "bit64", "ext_inst_integer"]
    try:
        names += [f.name for f, _, _, _ in typed_requests()]
    except Lost:
        pass
    return {
        "unit": NAME,
        "functions_under_contract": ["binary::decoder::Decoder::" + n for n in names],
        "assumptions": lib_spirv.ASSUMED + [
            "R5: std slice indexing a[i..j] panics exactly when !(i <= j <= len) and otherwise yields the subrange",
            "R6: u32::from_le_bytes on a 4-byte slice is the little-endian word (le32)",
            "R7: Iterator::position returns the first index whose element satisfies the closure, None iff none",
            "R8: str::from_utf8(..)?.to_string() holds exactly the validated bytes; format! never panics",
            "usize arithmetic is checked for overflow by Verus with symbolic word size",
        ],
    }


# ---------------------------------------------------------------------------------------------
# witness search: small directed family of (buffer, limit, request sequence) run on the REAL
# Decoder through `vreplay decoder-script`, checked against C11's statement. Not exhaustive.
# ---------------------------------------------------------------------------------------------

def _le32(b, o):
    return b[o] | (b[o + 1] << 8) | (b[o + 2] << 16) | (b[o + 3] << 24)


def _check_script(buf, ops, out_lines):
    """returns a description of the first disagreement with C11, or None"""
    off, limit, consumed_since, lim_n = 0, None, 0, None
    if any(l.strip() == "PANIC" for l in out_lines):
        return "panic"
    for op, line in zip(ops, out_lines):
        m = re.match(r"^(\S+) -> (.*) offset=(\d+) limit_reached=(\w+)$", line)
        if not m:
            return "unparsable replay line %r" % line
        res, noff = m.group(2), int(m.group(3))
        if noff > len(buf):
            return "offset %d beyond end of %d-byte buffer after %s" % (noff, len(buf), op)
        if op.startswith("lim:"):
            limit = int(op[4:])
            lim_n, consumed_since = limit, 0
        elif op == "clr":
            limit = None
        elif op == "w":
            if limit == 0:
                if res != "Err(LimitReached(%d))" % off or noff != off:
                    return "word() at exhausted limit: %s, offset %d->%d" % (res, off, noff)
            elif off + 4 > len(buf):
                if res != "Err(StreamExpected(%d))" % off or noff != off:
                    return "word() without 4 bytes left: %s, offset %d->%d" % (res, off, noff)
                if limit is not None:
                    limit -= 1
            else:
                if res != "Ok(%d)" % _le32(buf, off) or noff != off + 4:
                    return "word(): %s offset %d->%d, expected Ok(%d)" % (res, off, noff, _le32(buf, off))
                if limit is not None:
                    limit -= 1
        elif op.startswith("ws:"):
            # words(k): k raw-word requests, stopping at the first failure (the words read before it stay consumed)
            k, vals, o2, exp = int(op[3:]), [], off, None
            for _ in range(k):
                if limit == 0:
                    exp = "Err(LimitReached(%d))" % o2
                    break
                if limit is not None:
                    limit -= 1
                if o2 + 4 > len(buf):
                    exp = "Err(StreamExpected(%d))" % o2
                    break
                vals.append(_le32(buf, o2))
                o2 += 4
            if exp is None:
                exp = "Ok([%s])" % ", ".join(str(v) for v in vals)
            if res != exp or noff != o2:
                return "words(%d): %s offset %d->%d, expected %s and offset %d" % (k, res, off, noff, exp, o2)
        elif op == "s":
            # C11: the NUL-terminated string at the offset, whole words, never past the limit or the buffer
            if limit is not None and limit * 4 <= len(buf) - off:
                window, by_limit = buf[off:off + limit * 4], True
            else:
                window, by_limit = buf[off:], False
            if 0 not in window:
                exp_ok = False
            else:
                k = window.index(0)
                exp_ok = (k // 4 + 1) * 4 <= len(window)
            if exp_ok:
                try:
                    bytes(window[:k]).decode("utf-8")
                    utf8_ok = True
                except UnicodeDecodeError:
                    utf8_ok = False
                if not utf8_ok:
                    # C11 returns the NUL-terminated *UTF-8* string: bytes that are not UTF-8 are a failure that consumes nothing
                    if not res.startswith("Err(DecodeStringFailed(%d," % off) or noff != off:
                        return "string() on bytes that are not UTF-8: %s offset %d->%d, expected Err(DecodeStringFailed(%d, ..)) and no progress" % (res, off, noff, off)
                    off = noff
                    continue
                words = k // 4 + 1
                txt = bytes(window[:k]).decode("ascii", "replace")
                printable = all(0x20 <= c <= 0x7e and c not in (0x22, 0x5c) for c in window[:k])
                if (printable and res != 'Ok("%s")' % txt) or not res.startswith("Ok(") or noff != off + 4 * words:
                    return "string(): %s offset %d->%d, expected Ok(%r) and offset %d" % (res, off, noff, txt, off + 4 * words)
                if limit is not None:
                    limit -= words
            else:
                if res.startswith("Ok("):
                    return "string(): %s although no complete NUL-terminated string lies in the window" % res
                if noff != off:
                    return "failed string() moved the offset %d->%d" % (off, noff)
        elif op == "b64":
            if res.startswith("Ok("):
                if noff != off + 8:
                    return "bit64 Ok but offset %d->%d" % (off, noff)
                v = _le32(buf, off) | (_le32(buf, off + 4) << 32)
                if res != "Ok(%d)" % v:
                    return "bit64(): %s expected Ok(%d)" % (res, v)
                if limit is not None:
                    limit -= 2
            else:
                if limit is not None:
                    limit = max(0, limit - (1 if (limit >= 1) else 0) - (1 if (noff > off and limit >= 2) else 0))
        elif op in ("source_language", "image_operands"):
            if res.startswith("Ok("):
                if noff != off + 4:
                    return "%s Ok but offset %d->%d" % (op, off, noff)
                if limit is not None:
                    limit -= 1
            elif limit not in (None, 0) and off + 4 > len(buf):
                limit -= 1
            elif limit not in (None, 0):
                limit -= 1
        if lim_n is not None and not op.startswith("lim:"):
            consumed_since += (noff - off) // 4
            if limit is not None and consumed_since > lim_n:
                return "consumed %d words after set_limit(%d)" % (consumed_since, lim_n)
        off = noff
    return None


def typed_witness(ctx):
    """every typed request (one per enum / mask kind) of the tree under check on chosen words: declared values and bits, the empty
    mask, undeclared neighbours, all ones - accepted iff declared, the value is the word, one word consumed; rejected with the
    kind's own error carrying offset and word (generated program)"""
    from .common import enum_variants, SPIRV
    from .kani_masks import mask_decls
    src = Source.get(GEN)
    masks = {T: dict(c) for T, c in mask_decls()}
    lines = ["// generated by /verif/units/decoder.py", "#![allow(unused)]", "use rspirv::binary::Decoder;", "use rspirv::spirv;", "fn main() {", "    let mut bad = 0;"]
    n = 0
    for imp in src.find_all("impl", lambda i: i.impl_of == "Decoder"):
        for f in imp.children:
            if f.kind != "fn":
                continue
            m = re.search(r"->\s*Result<spirv::(\w+)>", f.core_text)
            if not m:
                continue
            T = m.group(1)
            if T in masks:
                allb = 0
                for v in masks[T].values():
                    allb |= v
                words = sorted(set([0, allb, 0xffffffff, 0x80000000] + list(masks[T].values()) + [1 << k for k in range(32) if not (allb >> k) & 1][:3]))
                okf = lambda w, allb=allb: (w & ~allb & 0xffffffff) == 0
                val = "v.bits()"
            else:
                try:
                    decl = set(v for _, v in enum_variants(Source.get(SPIRV).find("enum", T)))
                except Exception:
                    continue
                words = sorted(set(list(decl)[:40] + [max(decl), min(decl)] + [v + 1 for v in list(decl)[:40]] + [max(decl) + 1, 0xffffffff, 0x7ffffffe]))
                words = [w for w in words if 0 <= w <= 0xffffffff]
                okf = lambda w, decl=decl: w in decl
                val = "v as u32"
            for w in words:
                n += 1
                lines.append("    { let b = [%d, %d, %d, %d, 9, 9, 9, 9u8]; let mut d = Decoder::new(&b); let r = d.%s(); let off = d.offset();" % (w & 255, (w >> 8) & 255, (w >> 16) & 255, (w >> 24) & 255, f.name))
                if okf(w):
                    lines.append("      match r { Ok(v) if %s == %du32 && off == 4 => {}, other => { bad += 1; println!(\"MISMATCH %s() on word %#x: {:?} offset {} (a declared value: expected Ok and one word consumed)\", other, off); } } }" % (val, w, f.name, w))
                else:
                    lines.append("      match r { Err(_) => {}, other => { bad += 1; println!(\"MISMATCH %s() on word %#x: {:?} (not a declared value: expected the kind's Unknown error)\", other); } } }" % (f.name, w))
    lines += ['    println!("checked %d requests, {} mismatches", bad);' % n, "}"]
    p, err = ctx["vgen"]("typed_witness", "\n".join(lines), [])
    if p is None:
        return {"found": False, "error": err}
    out = p.stdout.splitlines()
    mm = [l for l in out if l.startswith("MISMATCH")]
    return {"found": bool(mm), "input": mm[:6], "observed": out[-1:]}


def witness(failure, ctx):
    tw = typed_witness(ctx)
    if tw.get("found"):
        tw.update({"exhaustive": False, "how": "generated program: every typed decoder request on declared / undeclared / empty / all-ones words (real Decoder)"})
        return tw
    bufs = []
    for n in range(0, 10):
        bufs.append([0x61] * n)
        bufs.append(([0x61, 0] * 8)[:n])
        bufs.append(([0, 0, 0, 0, 1, 0, 0, 0, 3])[:n])
        bufs.append(([0x61, 0x62, 0x63, 0, 0x64, 0x65, 0x66, 0x67, 0])[:n])
        bufs.append(([0x6f, 0x6b, 0, 0x58, 0x72, 0x75, 0x73, 0x74, 0, 0, 0, 0])[:n])
    bufs.append([0x6f, 0x6b, 0, 0x58, 0x72, 0x75, 0x73, 0x74, 0, 0, 0, 0])
    bufs.append([0x6f, 0x6b, 0, 0x58, 0x72, 0x75, 0x73, 0x74, 0x21, 0x21, 0x21, 0])
    bufs.append(list(range(1, 17)))
    # bytes after the NUL terminator (padding, following words) are not part of the string, whatever they are
    bufs.append([0x61, 0x62, 0, 0, 0x80, 0, 0, 0])
    bufs.append([0x61, 0, 0xff, 0xfe, 0xff, 0xff, 0xff, 0xff])
    bufs.append([0, 0xc3, 0x28, 0xa0, 0xe2, 0x28, 0xa1, 0x80])
    seen, uniq = set(), []
    for b in bufs:
        if tuple(b) not in seen:
            seen.add(tuple(b))
            uniq.append(b)
    lims = [[], ["lim:0"], ["lim:1"], ["lim:2"], ["lim:3"], ["lim:4611686018427387904"], ["lim:18446744073709551615"]]
    seqs = [["w"], ["s"], ["s", "s"], ["w", "s"], ["b64"], ["s", "w"], ["w", "w", "w"], ["source_language"],
            ["image_operands", "s"], ["s", "clr", "s"], ["ws:2", "s"], ["ws:1", "w", "w"], ["ws:2", "w"], ["ws:3"], ["w", "ws:1", "w"],
            ["ws:4611686018427387904"], ["ws:18446744073709551615"], ["w", "ws:4611686018427387905", "w"], ["lim:1", "lim:3", "w", "clr", "ws:5"],
            ["lim:3", "lim:1", "w", "clr", "ws:5"], ["lim:2", "clr", "lim:1", "clr", "ws:3"]]
    tried = 0
    for b in uniq:
        hexs = "".join("%02x" % x for x in b) or ""
        for lim in lims:
            for sq in seqs:
                ops = lim + sq
                p, err = ctx["vreplay"](["decoder-script", hexs] + ops)
                if p is None:
                    return {"found": False, "error": err}
                tried += 1
                lines = [l for l in p.stdout.splitlines() if l.strip()]
                d = _check_script(b, [o for o in ops], lines)
                if d:
                    return {"found": True, "exhaustive": False,
                            "input": {"bytes_hex": hexs, "requests": ops}, "observed": lines, "disagreement": d,
                            "how": "vreplay decoder-script on the real Decoder, scripts tried: %d" % tried}
    return {"found": False, "exhaustive": False, "how": "%d decoder scripts on buffers <= 9 bytes agreed with C11" % tried}
