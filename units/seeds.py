"""hand-built seed modules (word lists) for the directed searches that turn a failed obligation
into a concrete input for the real crate. Never part of a proof."""


def s(txt):
    b = txt.encode() + b"\0"
    b += b"\0" * (-len(b) % 4)
    return [int.from_bytes(b[i:i + 4], "little") for i in range(0, len(b), 4)]


def inst(op, *ws):
    ws = list(ws)
    return [((len(ws) + 1) << 16) | op] + ws


HEADER = [0x07230203, 0x00010300, 0x000f0000, 60, 0]


def seed_main():
    w = []
    w += inst(17, 1)                                   # OpCapability Shader
    w += inst(11, 1, *s("GLSL.std.450"))               # OpExtInstImport
    w += inst(14, 0, 1)                                # OpMemoryModel Logical GLSL450
    w += inst(15, 0, 20, *s("main"))                   # OpEntryPoint Vertex %20 "main"
    w += inst(16, 20, 17, 1, 2, 3)                     # OpExecutionMode %20 LocalSize 1 2 3
    w += inst(3, 2, 450)                               # OpSource GLSL 450
    w += inst(5, 20, *s("main"))                       # OpName
    w += inst(71, 5, 30, 2)                            # OpDecorate %5 Location 2
    w += inst(71, 6, 44, 8)                            # OpDecorate %6 Alignment 8
    w += inst(19, 2)                                   # OpTypeVoid %2
    w += inst(33, 3, 2)                                # OpTypeFunction %3 %2
    w += inst(21, 4, 32, 1)                            # OpTypeInt %4 32 1
    w += inst(21, 5, 64, 0)                            # OpTypeInt %5 64 0
    w += inst(22, 6, 64)                               # OpTypeFloat %6 64
    w += inst(21, 7, 16, 0)                            # OpTypeInt %7 16 0
    w += inst(43, 4, 8, 42)                            # OpConstant %4 %8 42
    w += inst(43, 5, 9, 1, 2)                          # OpConstant %5 %9 (64-bit)
    w += inst(43, 6, 10, 3, 4)                         # OpConstant %6 %10 (64-bit float)
    w += inst(43, 7, 11, 7)                            # OpConstant %7 %11 (16-bit)
    w += inst(22, 15, 16)                              # OpTypeFloat %15 16
    w += inst(43, 15, 16, 0x3c00)                      # OpConstant %15 %16 (16-bit float, one word)
    w += inst(22, 17, 32)                              # OpTypeFloat %17 32
    w += inst(43, 17, 18, 0x3f800000)                  # OpConstant %17 %18 (32-bit float)
    w += inst(21, 19, 8, 1)                            # OpTypeInt %19 8 1
    w += inst(43, 19, 28, 0x7f)                        # OpConstant %19 %28 (8-bit)
    w += inst(50, 4, 12, 13)                           # OpSpecConstant %4 %12 13
    w += inst(52, 4, 13, 128, 8, 12)                   # OpSpecConstantOp %4 %13 IAdd %8 %12
    w += inst(32, 14, 7, 4)                            # OpTypePointer %14 Function %4
    w += inst(54, 2, 20, 0, 3)                         # OpFunction %2 %20 None %3
    w += inst(248, 21)                                 # OpLabel %21
    w += inst(59, 14, 22, 7)                           # OpVariable %14 %22 Function
    w += inst(62, 22, 8, 2, 4)                         # OpStore %22 %8 Aligned 4
    w += inst(61, 4, 23, 22, 3, 4)                     # OpLoad %4 %23 %22 Volatile|Aligned 4
    w += inst(8, 1, 3, 4)                              # OpLine
    w += inst(12, 4, 24, 1, 31, 23)                    # OpExtInst %4 %24 %1 FindILsb %23
    w += inst(247, 25, 0)                              # OpSelectionMerge %25 None
    w += inst(251, 9, 25, 1, 0, 26, 2, 0, 27)          # OpSwitch %9(64-bit selector) %25 [1,0]->%26 [2,0]->%27
    w += inst(248, 26)
    w += inst(249, 25)                                 # OpBranch %25
    w += inst(248, 27)
    w += inst(249, 25)
    w += inst(248, 25)
    w += inst(253)                                     # OpReturn
    w += inst(56)                                      # OpFunctionEnd
    return HEADER + w


def to_hex_bytes(words):
    return "".join(w.to_bytes(4, "little").hex() for w in words)


def instruction_starts(words):
    out, i = [], 5
    while i < len(words):
        wc = words[i] >> 16
        out.append(i)
        if wc == 0:
            break
        i += wc
    return out
