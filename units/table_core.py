"""unit table_core — see units/tables.py"""
from . import tables

NAME = "table_core"
RLIMIT = 100


def build(tier="quick", must_fail=False):
    return tables.build_table("core", tier, must_fail)


def describe():
    return tables.describe_table("core")


def witness(failure, ctx):
    return tables.witness_table("core", failure, ctx)
