"""unit `builder_core` — dr/build/mod.rs (hand-written Builder) + the generated terminator and
type methods, under contract (C12, C13; feeds C06).

View of a builder: (module_view, next_id, selected_function, selected_block).
Representation invariant wf: the selection designates an existing function and block or
nothing (selected block => selected function, both in range). Every method requires and
re-establishes it; with every index / unwrap / expect / arithmetic operation an obligation at
its real source line, this is C12's "no call panics".
"""
import re
from .common import Source, Piece, Gen, Lost, HEADER, count_clauses
from . import lib_spirv, lib_dr

NAME = "builder_core"
FILE = "rspirv/dr/build/mod.rs"
TERM = "rspirv/dr/build/autogen_terminator.rs"
TYPES = "rspirv/dr/build/autogen_type.rs"
RLIMIT = 60

PRELUDE = r"""
use std::result;
// ---- abstract view ---------------------------------------------------------------------------------
pub struct BuilderV {
    pub module: dr::ModuleV,
    pub next_id: u32,
    pub sel_fn: Option<usize>,
    pub sel_blk: Option<usize>,
}
impl Builder {
    pub open spec fn view(&self) -> BuilderV {
        BuilderV { module: dr::module_view(self.module), next_id: self.next_id,
                   sel_fn: self.selected_function, sel_blk: self.selected_block }
    }
    // C12: the selection always designates an existing function and block, or nothing
    pub open spec fn wf(&self) -> bool {
        &&& (self.selected_function matches Some(f) ==> f < self.module.functions@.len())
        &&& (self.selected_block matches Some(b) ==> (self.selected_function matches Some(f)
                && f < self.module.functions@.len() && b < self.module.functions@[f as int].blocks@.len()))
    }
}
pub open spec fn sel_block_len(b: Builder) -> int {
    b.module.functions@[b.selected_function->0 as int].blocks@[b.selected_block->0 as int].instructions@.len() as int
}
// module view with the instructions of block (f, k) replaced
pub open spec fn with_block_insts(m: dr::ModuleV, f: int, k: int, insts: Seq<dr::Instruction>) -> dr::ModuleV {
    let fun = m.functions[f];
    dr::ModuleV { functions: m.functions.update(f, dr::FunctionV { blocks: fun.blocks.update(k,
        dr::BlockV { instructions: insts, ..fun.blocks[k] }), ..fun }), ..m }
}
pub open spec fn block_insts(m: dr::ModuleV, f: int, k: int) -> Seq<dr::Instruction> { m.functions[f].blocks[k].instructions }
pub open spec fn point_ok(p: InsertPoint, len: int) -> bool {
    match p { InsertPoint::Begin => true, InsertPoint::End => true,
              InsertPoint::FromBegin(o) => o <= len, InsertPoint::FromEnd(o) => o <= len }
}
pub open spec fn point_pos(p: InsertPoint, len: int) -> int {
    match p { InsertPoint::Begin => 0, InsertPoint::End => len,
              InsertPoint::FromBegin(o) => o as int, InsertPoint::FromEnd(o) => len - o }
}
pub open spec fn with_tgv(m: dr::ModuleV, s: Seq<dr::Instruction>) -> dr::ModuleV { dr::ModuleV { types_global_values: s, ..m } }
pub open spec fn with_function(m: dr::ModuleV, f: int, fun: dr::FunctionV) -> dr::ModuleV {
    dr::ModuleV { functions: m.functions.update(f, fun), ..m }
}
// instruction shape: opcode, result type, result id, operands
pub open spec fn is_inst(i: dr::Instruction, op: spirv::Op, rt: Option<u32>, rid: Option<u32>, ops: Seq<dr::Operand>) -> bool {
    i.class.opcode == op && *i.class == grammar::row_of(op) && i.result_type == rt && i.result_id == rid && i.operands@ =~= ops
}
// ---- C13: type identity and the first identical declaration -------------------------------------------
pub open spec fn type_identical(a: dr::Instruction, b: dr::Instruction) -> bool {
    a.class.opcode == b.class.opcode && a.operands@ == b.operands@
}
pub open spec fn dedup_hit(t: dr::Instruction, inst: dr::Instruction) -> bool { type_identical(t, inst) && t.result_id is Some }
pub open spec fn first_dedup(tgv: Seq<dr::Instruction>, inst: dr::Instruction, i: int) -> bool {
    0 <= i < tgv.len() && dedup_hit(tgv[i], inst) && forall|j: int| 0 <= j < i ==> !dedup_hit(#[trigger] tgv[j], inst)
}
pub open spec fn has_dedup(tgv: Seq<dr::Instruction>, inst: dr::Instruction) -> bool {
    exists|i: int| 0 <= i < tgv.len() && dedup_hit(#[trigger] tgv[i], inst)
}
// R21: `a == b` on Vec<Operand> (derived PartialEq, structural)
#[verifier::external_body]
pub fn operands_eq(a: &Vec<dr::Operand>, b: &Vec<dr::Operand>) -> (r: bool)
    ensures r == (a@ == b@),
{ unimplemented!() }
"""

FRAME = "final(self).wf()"

# contracts, written from the statements of C12 / C13 -----------------------------------------------
C = {}
C["new"] = ("r", """ensures r.wf(), r.next_id == 1, r.selected_function is None, r.selected_block is None,
        r.module.functions@.len() == 0, r.module.types_global_values@.len() == 0, r.module.header is None,""")
C["new_from_module"] = ("r", """requires module.header is Some,
    ensures r.wf(), r.next_id == (module.header->0).bound, r.selected_function is None, r.selected_block is None,
        r.module == module,""")
C["id"] = ("r", """requires old(self).next_id < u32::MAX,
    ensures r == old(self).next_id, final(self).next_id == old(self).next_id + 1,
        final(self).module == old(self).module, final(self).selected_function == old(self).selected_function,
        final(self).selected_block == old(self).selected_block,""")
C["selected_function"] = ("r", "ensures r == self.selected_function,")
C["selected_block"] = ("r", "ensures r == self.selected_block,")
C["insert_into_block"] = ("r", """requires old(self).wf(),
        (old(self).selected_function is Some && old(self).selected_block is Some) ==> point_ok(insert_point, sel_block_len(*old(self))),
    ensures final(self).wf(),
        final(self).next_id == old(self).next_id, final(self).selected_function == old(self).selected_function,
        final(self).selected_block == old(self).selected_block,
        // fails iff no block is selected; a failed call changes nothing
        (r is Err) <==> (old(self).selected_block is None),
        r is Err ==> ((dr::module_ext(final(self).view().module, old(self).view().module) && final(self).next_id == old(self).next_id && final(self).selected_function == old(self).selected_function && final(self).selected_block == old(self).selected_block) && r == Err::<(), Error>(Error::DetachedInstruction(Some(inst)))),
        r is Ok ==> ({ let f = old(self).selected_function->0 as int; let k = old(self).selected_block->0 as int;
            let old_insts = block_insts(old(self).view().module, f, k);
            dr::module_ext(final(self).view().module, with_block_insts(old(self).view().module, f, k,
                old_insts.insert(point_pos(insert_point, old_insts.len() as int), inst)))}),""")
C["insert_types_global_values"] = (None, """requires old(self).wf(), point_ok(insert_point, old(self).module.types_global_values@.len() as int),
    ensures final(self).wf(), final(self).next_id == old(self).next_id,
        final(self).selected_function == old(self).selected_function, final(self).selected_block == old(self).selected_block,
        dr::module_ext(final(self).view().module, with_tgv(old(self).view().module, old(self).module.types_global_values@.insert(
            point_pos(insert_point, old(self).module.types_global_values@.len() as int), inst))),""")
C["pop_instruction"] = ("r", """requires old(self).wf(),
    ensures final(self).wf(), final(self).next_id == old(self).next_id,
        final(self).selected_function == old(self).selected_function, final(self).selected_block == old(self).selected_block,
        (r is Err) <==> (old(self).selected_block is None || sel_block_len(*old(self)) == 0),
        r is Err ==> (dr::module_ext(final(self).view().module, old(self).view().module) && final(self).next_id == old(self).next_id && final(self).selected_function == old(self).selected_function && final(self).selected_block == old(self).selected_block),
        old(self).selected_block is None ==> r == Err::<dr::Instruction, Error>(Error::DetachedInstruction(None)),
        r matches Ok(i) ==> ({ let f = old(self).selected_function->0 as int; let k = old(self).selected_block->0 as int;
            let old_insts = block_insts(old(self).view().module, f, k);
            i == old_insts.last() && dr::module_ext(final(self).view().module, with_block_insts(old(self).view().module, f, k, old_insts.drop_last()))}),""")
C["module"] = ("r", """ensures
        // C13: the finished module's bound is the next id that would have been allocated
        r.header is Some && (r.header->0).bound == self.next_id,
        dr::module_ext(dr::module_view(r), (dr::ModuleV { header: r.header, ..self.view().module })),
        self.module.header matches Some(h) ==> r.header == Some(dr::ModuleHeader { bound: self.next_id, ..h }),""")
C["select_function"] = ("r", """requires old(self).wf(),
    ensures final(self).wf(), final(self).module == old(self).module, final(self).next_id == old(self).next_id,
        idx matches Some(i) ==> ((r is Ok) <==> i < old(self).module.functions@.len()),
        idx is None ==> r is Ok,
        r is Err ==> ((dr::module_ext(final(self).view().module, old(self).view().module) && final(self).next_id == old(self).next_id && final(self).selected_function == old(self).selected_function && final(self).selected_block == old(self).selected_block) && r == Err::<(), Error>(Error::FunctionNotFound)),
        r is Ok ==> final(self).selected_function == idx,
        (r is Ok && idx is None) ==> final(self).selected_block is None,""")
C["select_block"] = ("r", """requires old(self).wf(),
    ensures final(self).wf(), final(self).module == old(self).module, final(self).next_id == old(self).next_id,
        final(self).selected_function == old(self).selected_function,
        r is Err ==> (dr::module_ext(final(self).view().module, old(self).view().module) && final(self).next_id == old(self).next_id && final(self).selected_function == old(self).selected_function && final(self).selected_block == old(self).selected_block),
        idx is None ==> (r is Ok && final(self).selected_block is None),
        idx matches Some(i) ==> ((r is Ok) <==> (old(self).selected_function matches Some(f)
            && i < old(self).module.functions@[f as int].blocks@.len())),
        (idx is Some && r is Ok) ==> final(self).selected_block == idx,
        (idx is Some && old(self).selected_function is None) ==> r == Err::<(), Error>(Error::DetachedBlock),""")
C["begin_function"] = ("r", """requires old(self).wf(), old(self).next_id < u32::MAX,
    ensures final(self).wf(),
        // fails iff a function is open; a failed call changes nothing
        (r is Err) <==> (old(self).selected_function is Some),
        r is Err ==> ((dr::module_ext(final(self).view().module, old(self).view().module) && final(self).next_id == old(self).next_id && final(self).selected_function == old(self).selected_function && final(self).selected_block == old(self).selected_block) && r == Err::<u32, Error>(Error::NestedFunction)),
        r matches Ok(id) ==> (
            (function_id matches Some(v) ==> (id == v && final(self).next_id == old(self).next_id))
            && (function_id is None ==> (id == old(self).next_id && final(self).next_id == old(self).next_id + 1))
            && final(self).selected_function == Some(old(self).module.functions@.len() as usize)
            && final(self).selected_block == old(self).selected_block
            && final(self).module.functions@.len() == old(self).module.functions@.len() + 1
            && ({ let nf = final(self).view().module.functions.last();
                  nf.def is Some && is_inst(nf.def->0, spirv::Op::Function, Some(return_type), Some(id),
                      seq![dr::Operand::FunctionControl(control), dr::Operand::IdRef(function_type)])
                  && nf.end is None && nf.parameters.len() == 0 && nf.blocks.len() == 0
                  && dr::module_ext(final(self).view().module, (dr::ModuleV { functions: old(self).view().module.functions.push(nf), ..old(self).view().module }))})),""")
C["end_function"] = ("r", """requires old(self).wf(),
    ensures final(self).wf(), final(self).next_id == old(self).next_id,
        (r is Err) <==> (old(self).selected_function is None),
        r is Err ==> ((dr::module_ext(final(self).view().module, old(self).view().module) && final(self).next_id == old(self).next_id && final(self).selected_function == old(self).selected_function && final(self).selected_block == old(self).selected_block) && r == Err::<(), Error>(Error::MismatchedFunctionEnd)),
        r is Ok ==> (final(self).selected_function is None && final(self).selected_block is None
            && ({ let f = old(self).selected_function->0 as int; let of = old(self).view().module.functions[f];
                  let nf = final(self).view().module.functions[f];
                  nf.end is Some && is_inst(nf.end->0, spirv::Op::FunctionEnd, None, None, Seq::empty())
                  && dr::module_ext(final(self).view().module, with_function(old(self).view().module, f, dr::FunctionV { end: nf.end, ..of }))})),""")
C["function_parameter"] = ("r", """requires old(self).wf(), old(self).next_id < u32::MAX,
    ensures final(self).wf(),
        (r is Err) <==> (old(self).selected_function is None),
        r is Err ==> ((dr::module_ext(final(self).view().module, old(self).view().module) && final(self).next_id == old(self).next_id && final(self).selected_function == old(self).selected_function && final(self).selected_block == old(self).selected_block) && r == Err::<u32, Error>(Error::DetachedFunctionParameter)),
        r matches Ok(id) ==> (id == old(self).next_id && final(self).next_id == old(self).next_id + 1
            && final(self).selected_function == old(self).selected_function && final(self).selected_block == old(self).selected_block
            && ({ let f = old(self).selected_function->0 as int; let of = old(self).view().module.functions[f];
                  let nf = final(self).view().module.functions[f];
                  nf.parameters.len() == of.parameters.len() + 1
                  && is_inst(nf.parameters.last(), spirv::Op::FunctionParameter, Some(result_type), Some(id), Seq::empty())
                  && dr::module_ext(final(self).view().module, with_function(old(self).view().module, f,
                        dr::FunctionV { parameters: of.parameters.push(nf.parameters.last()), ..of }))})),""")
BEGIN_BLOCK = """requires old(self).wf(), old(self).next_id < u32::MAX,
    ensures final(self).wf(),
        // fails iff no function is open or a block is open
        (r is Err) <==> (old(self).selected_function is None || old(self).selected_block is Some),
        r is Err ==> (dr::module_ext(final(self).view().module, old(self).view().module) && final(self).next_id == old(self).next_id && final(self).selected_function == old(self).selected_function && final(self).selected_block == old(self).selected_block),
        old(self).selected_function is None ==> r == Err::<u32, Error>(Error::DetachedBlock),
        (old(self).selected_function is Some && old(self).selected_block is Some) ==> r == Err::<u32, Error>(Error::NestedBlock),
        r matches Ok(id) ==> (
            (label_id matches Some(v) ==> (id == v && final(self).next_id == old(self).next_id))
            && (label_id is None ==> (id == old(self).next_id && final(self).next_id == old(self).next_id + 1))
            && final(self).selected_function == old(self).selected_function
            && ({ let f = old(self).selected_function->0 as int; let of = old(self).view().module.functions[f];
                  let nf = final(self).view().module.functions[f];
                  final(self).selected_block == Some(of.blocks.len() as usize)
                  && nf.blocks.len() == of.blocks.len() + 1 && nf.blocks.last().instructions.len() == 0
                  && %s
                  && dr::module_ext(final(self).view().module, with_function(old(self).view().module, f,
                        dr::FunctionV { blocks: of.blocks.push(nf.blocks.last()), ..of }))})),"""
C["begin_block"] = ("r", BEGIN_BLOCK % "(nf.blocks.last().label is Some && is_inst(nf.blocks.last().label->0, spirv::Op::Label, None, Some(id), Seq::empty()))")
C["begin_block_no_label"] = ("r", BEGIN_BLOCK % "nf.blocks.last().label is None")
END_BLOCK = """requires old(self).wf(),
        old(self).selected_block is Some ==> point_ok(%(P)s, sel_block_len(*old(self))),
    ensures final(self).wf(), final(self).next_id == old(self).next_id,
        final(self).selected_function == old(self).selected_function,
        // a terminator fails iff no block is selected; it closes the block
        (r is Err) <==> (old(self).selected_block is None),
        r is Err ==> ((dr::module_ext(final(self).view().module, old(self).view().module) && final(self).next_id == old(self).next_id && final(self).selected_function == old(self).selected_function && final(self).selected_block == old(self).selected_block) && r == Err::<(), Error>(Error::MismatchedTerminator)),
        r is Ok ==> (final(self).selected_block is None
            && ({ let f = old(self).selected_function->0 as int; let k = old(self).selected_block->0 as int;
                  let old_insts = block_insts(old(self).view().module, f, k);
                  dr::module_ext(final(self).view().module, with_block_insts(old(self).view().module, f, k,
                      old_insts.insert(point_pos(%(P)s, old_insts.len() as int), inst)))})),"""
C["end_block"] = ("r", END_BLOCK % {"P": "InsertPoint::End"})
C["insert_end_block"] = ("r", END_BLOCK % {"P": "insert_point"})
C["dedup_insert_type"] = ("r", """requires old(self).wf(),
    ensures *final(self) == *old(self),
        // the id of the FIRST earlier declaration with the same opcode and operands that has a result id
        r matches Some(id) ==> (exists|i: int| first_dedup(old(self).module.types_global_values@, *inst, i)
            && #[trigger] old(self).module.types_global_values@[i].result_id == Some(id)),
        r is None ==> !has_dedup(old(self).module.types_global_values@, *inst),""")


def append_global(section, op, rt, rid, ops, idret=None):
    """contract of a module-level appender"""
    sec_update = "(dr::ModuleV { %s: old(self).view().module.%s.push(final(self).view().module.%s.last()), ..old(self).view().module })" % (
        section, section, section)
    s = """requires old(self).wf()%s,
    ensures final(self).wf(), final(self).selected_function == old(self).selected_function,
        final(self).selected_block == old(self).selected_block,
        final(self).view().module.%s.len() == old(self).view().module.%s.len() + 1,
        is_inst(final(self).view().module.%s.last(), %s, %s, %s, %s),
        dr::module_ext(final(self).view().module, %s),
        %s""" % (", old(self).next_id < u32::MAX" if idret else "", section, section, section, op, rt, rid, ops, sec_update,
                 "r == old(self).next_id, final(self).next_id == old(self).next_id + 1," if idret else
                 "final(self).next_id == old(self).next_id,")
    return s


# C06: the version set LAST on the builder is the module's version (every call writes it); nothing else changes
C["set_version"] = (None, """requires old(self).wf(),
    ensures final(self).wf(), final(self).next_id == old(self).next_id, final(self).selected_function == old(self).selected_function,
        final(self).selected_block == old(self).selected_block,
        final(self).module.header is Some && (final(self).module.header->0).version == dr::version::version_word(major, minor),
        old(self).module.header matches Some(h) ==> ((final(self).module.header->0).bound == h.bound && (final(self).module.header->0).magic_number == h.magic_number),
        dr::module_ext((dr::ModuleV { header: old(self).view().module.header, ..final(self).view().module }), old(self).view().module),""")
C["capability"] = (None, append_global("capabilities", "spirv::Op::Capability", "None", "None", "seq![dr::Operand::Capability(capability)]"))
C["decoration_group"] = ("r", append_global("annotations", "spirv::Op::DecorationGroup", "None", "Some(r)", "Seq::empty()", idret=True))
C["type_forward_pointer"] = (None, append_global("types_global_values", "spirv::Op::TypeForwardPointer", "None", "None",
                                                 "seq![dr::Operand::IdRef(pointer_type), dr::Operand::StorageClass(storage_class)]"))
for nm, op, lit in (("constant_bit32", "Constant", "LiteralBit32"), ("constant_bit64", "Constant", "LiteralBit64"),
                    ("spec_constant_bit32", "SpecConstant", "LiteralBit32"), ("spec_constant_bit64", "SpecConstant", "LiteralBit64")):
    C[nm] = ("r", append_global("types_global_values", "spirv::Op::" + op, "Some(result_type)", "Some(r)",
                                "seq![dr::Operand::%s(value)]" % lit, idret=True))
C["memory_model"] = (None, """requires old(self).wf(),
    ensures final(self).wf(), final(self).next_id == old(self).next_id, final(self).selected_function == old(self).selected_function,
        final(self).selected_block == old(self).selected_block,
        final(self).module.memory_model is Some && is_inst(final(self).module.memory_model->0, spirv::Op::MemoryModel, None, None,
            seq![dr::Operand::AddressingModel(addressing_model), dr::Operand::MemoryModel(memory_model)]),
        dr::module_ext(final(self).view().module, (dr::ModuleV { memory_model: final(self).module.memory_model, ..old(self).view().module })),""")

LINE = """requires old(self).wf(),
    ensures final(self).wf(), final(self).next_id == old(self).next_id,
        final(self).selected_function == old(self).selected_function, final(self).selected_block == old(self).selected_block,
        // inside a selected block: appended to it; otherwise to types_global_values
        old(self).selected_block is Some ==> ({ let f = old(self).selected_function->0 as int; let k = old(self).selected_block->0 as int;
            let oi = block_insts(old(self).view().module, f, k); let ni = block_insts(final(self).view().module, f, k);
            ni.len() == oi.len() + 1 && is_inst(ni.last(), %(OP)s, None, None, %(OPS)s)
            && dr::module_ext(final(self).view().module, with_block_insts(old(self).view().module, f, k, oi.push(ni.last())))}),
        old(self).selected_block is None ==> ({ let ot = old(self).module.types_global_values@; let nt = final(self).module.types_global_values@;
            nt.len() == ot.len() + 1 && is_inst(nt.last(), %(OP)s, None, None, %(OPS)s)
            && dr::module_ext(final(self).view().module, with_tgv(old(self).view().module, ot.push(nt.last())))}),"""
C["line"] = (None, LINE % {"OP": "spirv::Op::Line", "OPS": "seq![dr::Operand::IdRef(file), dr::Operand::LiteralBit32(line), dr::Operand::LiteralBit32(column)]"})
C["no_line"] = (None, LINE % {"OP": "spirv::Op::NoLine", "OPS": "Seq::empty()"})

# C13: the three-way branch of every type request
TYPE3 = """requires old(self).wf(), old(self).next_id < u32::MAX,
    ensures final(self).wf(), final(self).selected_function == old(self).selected_function,
        final(self).selected_block == old(self).selected_block,
        ({ let otgv = old(self).module.types_global_values@; let ntgv = final(self).module.types_global_values@;
           let shape = |i: dr::Instruction, rid: Option<u32>| is_inst(i, %(OP)s, None, rid, %(OPS)s);
           // explicit id: always appends a declaration carrying that id
           &&& (result_id matches Some(v) ==> (r == v && final(self).next_id == old(self).next_id
                    && ntgv.len() == otgv.len() + 1 && shape(ntgv.last(), Some(v))
                    && dr::module_ext(final(self).view().module, with_tgv(old(self).view().module, otgv.push(ntgv.last())))))
           // implicit: an earlier identical declaration with an id exists => its id (the first such), nothing added
           &&& ((result_id is None && exists|i: int| 0 <= i < otgv.len() && #[trigger] otgv[i].class.opcode == %(OP)s
                        && otgv[i].operands@ == %(OPS)s && otgv[i].result_id is Some) ==> (
                    (dr::module_ext(final(self).view().module, old(self).view().module) && final(self).next_id == old(self).next_id && final(self).selected_function == old(self).selected_function && final(self).selected_block == old(self).selected_block)
                    && exists|i: int| 0 <= i < otgv.len() && #[trigger] otgv[i].class.opcode == %(OP)s && otgv[i].operands@ == %(OPS)s
                        && otgv[i].result_id == Some(r)
                        && forall|j: int| 0 <= j < i ==> !(#[trigger] otgv[j].class.opcode == %(OP)s && otgv[j].operands@ == %(OPS)s && otgv[j].result_id is Some)))
           // implicit, none exists: exactly one declaration with a fresh id
           &&& ((result_id is None && !(exists|i: int| 0 <= i < otgv.len() && #[trigger] otgv[i].class.opcode == %(OP)s
                        && otgv[i].operands@ == %(OPS)s && otgv[i].result_id is Some)) ==> (
                    r == old(self).next_id && final(self).next_id == old(self).next_id + 1
                    && ntgv.len() == otgv.len() + 1 && shape(ntgv.last(), Some(r))
                    && dr::module_ext(final(self).view().module, with_tgv(old(self).view().module, otgv.push(ntgv.last())))))
        }),"""
C["type_pointer"] = ("r", TYPE3 % {"OP": "spirv::Op::TypePointer",
                                   "OPS": "seq![dr::Operand::StorageClass(storage_class), dr::Operand::IdRef(pointee_type)]"})

# default for methods without a specific contract: selection stays valid, ids only grow, no panic
DEFAULT = """requires old(self).wf(), old(self).next_id < u32::MAX - 8,
    ensures final(self).wf(), final(self).next_id >= old(self).next_id,"""

SKIP = {"find_return_block_indices", "select_function_by_name", "version", "module_ref", "module_mut",
        "extension", "ext_inst_import", "entry_point", "execution_mode", "execution_mode_id", "ext_inst", "string", "type_opaque"}


# generated terminator method: fails iff no block is selected; otherwise the block is closed with exactly this instruction at the insert point
TERM_GEN = """requires old(self).wf(),
        old(self).selected_block is Some ==> point_ok(%(P)s, sel_block_len(*old(self))),
    ensures final(self).wf(), final(self).next_id == old(self).next_id,
        final(self).selected_function == old(self).selected_function,
        (r is Err) <==> (old(self).selected_block is None),
        r is Err ==> ((dr::module_ext(final(self).view().module, old(self).view().module) && final(self).selected_block == old(self).selected_block) && r == Err::<(), Error>(Error::MismatchedTerminator)),
        r is Ok ==> (final(self).selected_block is None
            && ({ let f = old(self).selected_function->0 as int; let k = old(self).selected_block->0 as int;
                  let oi = block_insts(old(self).view().module, f, k); let ni = block_insts(final(self).view().module, f, k);
                  let at = point_pos(%(P)s, oi.len() as int);
                  ni.len() == oi.len() + 1 && is_inst(ni[at], %(OP)s, None, None, %(OPS)s)
                  && dr::module_ext(final(self).view().module, with_block_insts(old(self).view().module, f, k, oi.insert(at, ni[at])))})),"""


def ops_expr(seq):
    """spec expression of the operand vector a lifted method builds (One / ZeroOrOne entries only)"""
    base = "seq![%s]" % ", ".join("dr::Operand::%s(%s)" % (v, p) for q, v, p in seq if q == "One")
    if not any(q == "One" for q, v, p in seq):
        base = "Seq::<dr::Operand>::empty()"
    for q, v, p in seq:
        if q == "ZeroOrOne":
            base = "(%s + (match %s { Some(ov) => seq![dr::Operand::%s(ov)], None => Seq::<dr::Operand>::empty() }))" % (base, p, v)
    return base


def emit_generated(g, emit_fn, must_fail, shard):
    from .lift_builder import lift_all
    ms = [m for m in lift_all() if m["file"] in (TYPES, TERM)]
    byname = {m["name"]: m for m in ms}
    n_type = n_term = n_skip = 0
    g.raw("impl Builder {")
    for fpath in (TYPES, TERM):
        gsrc = Source.get(fpath)
        for imp in gsrc.find_all("impl", lambda i: i.impl_of == "Builder"):
            for f in imp.children:
                if f.kind != "fn":
                    continue
                base = f.name + "_id" if (fpath == TYPES and not f.name.endswith("_id")) else f.name
                m = byname.get(base)
                if m is None or any(q not in ("One", "ZeroOrOne") for q, v, p in m["seq"]) or any("into()" in f.core_text for _ in [0]) and False:
                    n_skip += 1
                    continue
                if any(v is None or v.startswith("Pair:") for q, v, p in m["seq"]):
                    n_skip += 1
                    continue
                if must_fail and ((n_type + n_term) >= 1 or not f.name.endswith("_id")):
                    continue
                OP = "spirv::Op::" + m["op"]
                OPS = ops_expr(m["seq"])

                def edit(p, OPS=OPS, is_id=f.name.endswith("_id"), fpath=fpath):
                    p.sub(r"#\[allow\(unused_mut\)\]", "", "R12", required=False)
                    if fpath == TYPES and is_id:
                        p.insert_at("if let Some(result_id) = result_id {", "proof { assert(inst.operands@ =~= %s); }\n        " % OPS, where="before", nth=1, tag="ghost")
                if fpath == TYPES:
                    c = TYPE3 % {"OP": OP, "OPS": OPS}
                    if not f.name.endswith("_id"):
                        c = c.replace("result_id matches Some(v)", "None::<u32> matches Some(v)").replace("result_id is None", "None::<u32> is None")
                    n_type += 1
                else:
                    P = "insert_point" if f.name.startswith("insert_") else "InsertPoint::End"
                    c = TERM_GEN % {"P": P, "OP": OP, "OPS": OPS}
                    n_term += 1
                if must_fail:
                    c = c.replace("ensures final(self).wf(),", "ensures final(self).wf(), false,", 1)
                emit_fn(f, c, "r", edit)
    g.raw("}")
    g.n_type, g.n_term, g.n_skip = n_type, n_term, n_skip


def build(tier="quick", must_fail=False, gen=False, shard=None):
    """gen=True (unit builder_gen): the hand-written methods are contract-only stubs (proved in unit builder_core) and the
    GENERATED type and terminator methods with fixed / optional operands are verified against TYPE3 / TERM_GEN"""
    uname = "builder_gen" if gen else NAME
    g = Gen(uname if not must_fail else uname + "_mustfail")
    src = Source.get(FILE)
    g.raw(HEADER)
    g.raw("verus! {")
    lib_spirv.emit(g, with_alias=True, from_u32=False)
    lib_dr.emit_grammar(g)
    lib_dr.emit_dr(g)
    assert g.lines[-1].startswith("} // mod dr")
    g.lines.pop()
    # loader::Error is shared by the builder (`use super::Error`): the real enum
    lsrc = Source.get("rspirv/dr/loader.rs")
    g.raw("use crate::dr;")
    g.emit(Piece(lsrc.find("enum", "Error")), name="dr::loader::Error", under_contract=False)
    g.raw("pub mod build {")
    g.raw("use vstd::prelude::*;\nuse crate::dr;\nuse crate::spirv;\nuse crate::grammar;\nuse super::Error;")
    g.emit(Piece(src.find("type", "BuildResult")), name="dr::build::BuildResult", under_contract=False)
    st = Piece(src.find("struct", "Builder"))
    st.sub(r"(\n\s*)(module|next_id|selected_function|selected_block):", r"\1pub \2:", "R15", count=4)
    g.emit(st, name="dr::build::Builder", under_contract=False)
    g.emit(Piece(src.find("enum", "InsertPoint")), name="dr::build::InsertPoint", under_contract=False)
    g.raw(PRELUDE)

    n_default = 0
    fns_done = []

    def emit_fn(f, contract, rname, edit=None):
        p = Piece(f)
        if rname and "->" in f.core_text[:f.body_open - f.head_start]:
            p.name_result(rname)
        if edit:
            edit(p)
        # make private helpers visible (R15)
        if not f.core_text.startswith("pub"):
            p.sub(r"^fn ", "pub fn ", "R15", count=1)
        p.add_contract("    " + contract)
        if gen and stub_mode[0]:
            g.raw("#[verifier::external_body] // contract proved in unit builder_core")
            g.emit(p, name="dr::build::Builder::" + f.name, under_contract=False)
            return
        g.contract_clauses += count_clauses(contract)
        g.emit(p, name="dr::build::Builder::" + f.name)
        fns_done.append(f.name)

    stub_mode = [gen]

    def generic_edit(name):
        def e(p):
            p.rewrite_slices()
            if name == "is_type_identical":
                pass
        return e

    # Instruction::is_type_identical (constructs.rs) is used by dedup_insert_type
    csrc = Source.get(lib_dr.CONSTRUCTS)
    iti = Piece(csrc.find("fn", "Instruction::is_type_identical"))
    iti.name_result("r")
    iti.sub(r"self\.operands == other\.operands", "operands_eq(&self.operands, &other.operands)", "R21", count=1)
    iti.add_contract("    ensures r == type_identical(*self, *other),")
    g.raw("use crate::dr::Instruction;\nimpl dr::Instruction {")
    g.emit(iti, name="dr::Instruction::is_type_identical")
    g.raw("}")
    g.contract_clauses += 1

    impls = [i for i in src.find_all("impl") if i.impl_of == "Builder" and i.impl_trait is None]
    if not impls:
        raise Lost("impl Builder not found")
    want_mf = {"id", "insert_into_block", "selected_function", "selected_block"}
    g.raw("impl Builder {")
    for imp in impls:
        for f in imp.children:
            if f.kind != "fn" or f.name in SKIP:
                continue
            if must_fail and not gen and f.name not in want_mf:
                continue
            if gen and f.name not in C:
                continue
            if f.name in C:
                rn, c = C[f.name]
                if must_fail and not gen and f.name == "insert_into_block":
                    c = c.replace("ensures final(self).wf(),", "ensures final(self).wf(), false,", 1)
                edit = None
                if f.name == "dedup_insert_type":
                    def edit(p):
                        p.sub(r"for ty in &self\.module\.types_global_values", "for ty in iter: &self.module.types_global_values", "G1", count=1)
                        p.add_loop_contract(1, """            invariant
                *self == *old(self),
                forall|j: int| 0 <= j < iter.index@ ==> !dedup_hit(#[trigger] self.module.types_global_values@[j], *inst),""")
                elif f.name == "new_from_module":
                    def edit(p):
                        p.sub(r"module\s*\.header\s*\.as_ref\(\)\s*\.map\(\|h\| h\.bound\)\s*\.expect\((\"[^\"]*\")\)",
                              r"expect_some(match module.header.as_ref() { Some(h) => Some(h.bound), None => None }, \1)", "R10", count=1, flags=re.S)
                elif f.name in ("line", "no_line"):
                    def edit(p):
                        p.sub(r"self\.insert_into_block\(InsertPoint::End, inst\)\s*\.expect\((\"[^\"]*\")\)",
                              r"expect_ok(self.insert_into_block(InsertPoint::End, inst), \1)", "R10", count=1, flags=re.S)
                emit_fn(f, c, rn, edit)
            else:
                # default contract only for &mut self methods
                if "&mut self" in f.core_text[:f.body_open - f.head_start]:
                    def edit(p):
                        p.sub(r"\.expect\(\s*\"[^\"]*\"\s*\)", ".unwrap()", "R10", required=False, flags=re.S)
                    emit_fn(f, DEFAULT, "r", edit)
                    n_default += 1
    g.raw("}")
    if gen:
        stub_mode[0] = False
        emit_generated(g, emit_fn, must_fail, shard)
    g.raw("pub fn expect_some<T>(o: Option<T>, msg: &str) -> (r: T) requires o is Some, ensures Some(r) == o { o.unwrap() }")
    g.raw("// `.expect(msg)` on a Result: std panics exactly when it is Err\n#[verifier::external_body]\n"
          "pub fn expect_ok<T>(o: result::Result<T, Error>, msg: &str) -> (r: T) requires o is Ok, ensures Ok::<T, Error>(r) == o { unimplemented!() }")
    g.n_default = n_default
    g.fns_done = fns_done
    g.raw("} // mod build")
    g.raw("} // mod dr")
    g.raw("} // verus!")
    g.raw("fn main() {}")
    return g


def describe():
    return {
        "unit": NAME,
        "functions_under_contract": ["dr::build::Builder::" + n for n in C] + ["dr::Instruction::is_type_identical"],
        "assumptions": lib_dr.ASSUMED + [
            "R21: derived PartialEq on Vec<Operand> is structural equality of the operand sequences",
            "fewer than 2^32-9 ids are allocated (next_id does not wrap)",
            "insertion offsets lie within the selected block / section (stated precondition of C12)",
            "not under contract (outside C12's call alphabet, iterator/Into/AsRef parameters): " + ", ".join(sorted(SKIP)),
        ],
    }


# ---------------------------------------------------------------------------------------------
# witness search: all call sequences of length <= 4 (and some longer) over C12's alphabet on the
# REAL Builder (vreplay builder-batch) against a Python model of the statement
# ---------------------------------------------------------------------------------------------
ALPHA = ["bf", "ef", "bb", "nop", "ret", "param", "var", "line", "pop", "sf:0", "sf:1", "sf:none", "sb:0", "sb:1", "sb:none", "tvoid", "id"]


def _model_run(ops):
    """-> list of (result_kind, sel_fn, sel_blk, shape) per op, or None where the model has no opinion"""
    fns = []           # [def,end,params,[[label,n]..]]
    sf = sb = None
    nid = 1
    tgv = 0
    out = []
    for op in ops:
        res = "Ok"
        if op == "bf":
            if sf is not None:
                res = "Err(NestedFunction)"
            else:
                fns.append([1, 0, 0, []])
                sf = len(fns) - 1
                nid += 1
        elif op == "ef":
            if sf is None:
                res = "Err(MismatchedFunctionEnd)"
            else:
                fns[sf][1] = 1
                sf = None
                sb = None
        elif op == "bb":
            if sf is None:
                res = "Err(DetachedBlock)"
            elif sb is not None:
                res = "Err(NestedBlock)"
            else:
                fns[sf][3].append([1, 0])
                sb = len(fns[sf][3]) - 1
                nid += 1
        elif op == "ver":
            res = None
        elif op in ("nop", "ins:fb:0", "ins:fe:0", "ins:begin", "ins:end"):
            if sb is None:
                res = "Err(DetachedInstruction"
            else:
                fns[sf][3][sb][1] += 1
        elif op in ("ret", "kill", "br", "mesh", "terminv", "unreach", "ignint", "termray", "retval", "ins_mesh", "ins_terminv"):
            if sb is None:
                res = "Err(MismatchedTerminator)"
            else:
                fns[sf][3][sb][1] += 1
                sb = None
        elif op == "param":
            if sf is None:
                res = "Err(DetachedFunctionParameter)"
            else:
                fns[sf][2] += 1
                nid += 1
        elif op == "var":
            res = None
            nid += 1
            if sf is not None and sb is not None:
                fns[sf][3][sb][1] += 1
            else:
                tgv += 1
        elif op == "line":
            res = None
            if sb is not None:
                fns[sf][3][sb][1] += 1
            else:
                tgv += 1
        elif op == "pop":
            if sb is None:
                res = "Err(DetachedInstruction"
            elif fns[sf][3][sb][1] == 0:
                res = "Err(EmptyInstructionList)"
            else:
                fns[sf][3][sb][1] -= 1
        elif op.startswith("sf:"):
            if op == "sf:none":
                sf = sb = None
            else:
                i = int(op[3:])
                if i < len(fns):
                    if sf != i:
                        sb = None
                    sf = i
                else:
                    res = "Err(FunctionNotFound)"
        elif op.startswith("sb:"):
            if op == "sb:none":
                sb = None
            else:
                i = int(op[3:])
                if sf is None:
                    res = "Err(DetachedBlock)"
                elif i < len(fns[sf][3]):
                    sb = i
                else:
                    res = "Err(BlockNotFound)"
        elif op == "tvoid":
            res = None
            if tgv_void[0] is None:
                tgv_void[0] = nid
                nid += 1
                tgv += 1
        elif op == "id":
            nid += 1
            res = None
        shape = ";".join("%d%dp%d[%s]" % (f[0], f[1], f[2], ",".join("%d:%d" % (b[0], b[1]) for b in f[3])) for f in fns)
        out.append((res, sf, sb, tgv, shape))
    return out, nid


tgv_void = [None]


def witness(failure, ctx):
    import itertools
    scripts = []
    for n in (1, 2, 3, 4):
        for s in itertools.product(["bf", "ef", "bb", "nop", "ret", "param", "pop", "sf:0", "sf:1", "sb:0", "sb:1", "var", "line"], repeat=n):
            scripts.append(list(s))
    # insertion at every in-range point of an empty / one-instruction block; version set before, between and after id allocations
    for n in (1, 2, 3):
        for s in itertools.product(["bf", "bb", "nop", "ret", "pop", "ins:fb:0", "ins:fe:0", "ins:begin", "ver", "tvoid", "id"], repeat=n):
            if any(o.startswith("ins:") or o == "ver" for o in s):
                scripts.append(list(s))
                scripts.append(["bf", "bb"] + list(s))
    # every generated terminator the loader recognises closes the block (a following instruction is detached, a block can begin)
    for t in ("kill", "br", "mesh", "terminv", "unreach", "ignint", "termray", "retval", "ins_mesh", "ins_terminv"):
        scripts += [["bf", "bb", t], ["bf", "bb", t, "nop"], ["bf", "bb", t, "bb", "ret", "ef"], ["bf", "bb", "nop", t, "ret"], [t], ["bf", t]]
    scripts += [["bf", "bb", "ef", "bf", "nop"], ["bf", "bb", "ret", "bb", "ret", "ef", "bf", "sf:0", "sb:1", "sf:1", "nop"],
                ["bf", "bb", "nop", "nop", "pop", "ret", "ef", "bf", "bb", "ret", "ef", "sf:0", "sb:0", "nop", "sf:1", "sb:0", "pop", "pop"],
                ["tvoid", "tvoid", "id", "bf", "param", "bb", "var", "ret", "ef", "tvoid"]]
    inp = "\n".join(" ".join(s) for s in scripts) + "\n"
    p, err = ctx["vreplay"](["builder-batch"], stdin=inp, timeout=900)
    if p is None or p.returncode != 0:
        return {"found": False, "error": err or p.stderr[-300:]}
    chunks = p.stdout.split("--\n")
    for s, ch in zip(scripts, chunks):
        lines = [l for l in ch.splitlines() if l.strip()]
        tgv_void[0] = None
        model, nid = _model_run(s)
        if any(l.strip() == "PANIC" for l in lines):
            return {"found": True, "exhaustive": False, "input": s, "observed": lines[-4:], "disagreement": "panic",
                    "how": "vreplay builder-batch on the real Builder"}
        for op, (res, sf, sb, tgv, shape), line in zip(s, model, lines):
            m = re.match(r"^(\S+) -> (\S+) ; sel=(\S+)/(\S+) tgv=(\d+) caps=\d+ fns=(.*)$", line)
            if not m:
                return {"found": True, "exhaustive": False, "input": s, "observed": line, "disagreement": "unparsable"}
            gsf = None if m.group(3) == "None" else int(m.group(3)[5:-1])
            gsb = None if m.group(4) == "None" else int(m.group(4)[5:-1])
            bad = None
            if (gsf, gsb) != (sf, sb):
                bad = "selection %s/%s, statement says %s/%s" % (gsf, gsb, sf, sb)
            elif m.group(6) != shape or int(m.group(5)) != tgv:
                bad = "module shape fns=%s tgv=%s, statement says fns=%s tgv=%d" % (m.group(6), m.group(5), shape, tgv)
            elif res is not None and not (m.group(2).startswith("Ok") if res == "Ok" else res.replace("(", "(\"")[:12] in m.group(2).replace("Err(\"", "Err(\"")):
                if not (res != "Ok" and res[4:10] in m.group(2)):
                    bad = "result %s, statement says %s" % (m.group(2), res)
            if bad:
                return {"found": True, "exhaustive": False, "input": s, "at_op": op, "observed": line, "disagreement": bad,
                        "how": "vreplay builder-batch on the real Builder vs C12's statement"}
        if lines and lines[-1].startswith("bound=") and int(lines[-1][6:]) != nid:
            return {"found": True, "exhaustive": False, "input": s, "observed": lines[-1], "disagreement": "bound %s, next id %d" % (lines[-1], nid)}
    # C13: every ordered pair of 31 implicit type requests (dedup / distinct ids / no duplicate declaration), explicit ids
    p2, err2 = ctx["vreplay"](["dedup-sweep"], timeout=600)
    if p2 is not None and p2.returncode == 0:
        mm = [l for l in p2.stdout.splitlines() if l.startswith("MISMATCH")]
        if mm:
            return {"found": True, "exhaustive": False, "input": mm[0], "observed": mm[:5], "disagreement": "type requests: " + mm[0],
                    "how": "vreplay dedup-sweep on the real Builder (all ordered pairs of 31 type requests)"}
    return {"found": False, "exhaustive": False, "how": "%d call sequences (all of length <= 4 over 13 calls) agreed with C12/C13; dedup sweep over 961 request pairs" % len(scripts)}
