"""unit `method_sweep` (bounded, replay engine) — C06: every generated Builder method, called ONCE on the
real Builder with arguments of its parameter types (ids drawn from the builder, every optional argument
present, one element per variadic argument), inside a complete history; the module is assembled with
the real assembler, re-loaded with the real loader, and the two modules are compared instruction for
instruction (Debug text of the whole dr::Module). The program is generated from the method signatures
of the tree under check on every run and compiled against that tree.

Bound: one call per method (1096 methods, all of them), one argument vector per call. Also the
witness search of units builder_ops / builder_sections: a failed obligation about method m is replayed
with the program for m alone."""
import re
from .common import Source, Lost, SPIRV, enum_variants
from . import lift_builder

NAME = "method_sweep"
ENGINE = "replay-bounded"
HAS_MUSTFAIL = False
PICK = {"ExecutionMode": "OriginUpperLeft", "Decoration": "RelaxedPrecision", "Op": "Nop"}


def split_params(sig):
    inner = sig[sig.index("(") + 1:]
    # up to the matching close paren
    d, cur, parts = 0, "", []
    for ch in inner:
        if ch in "<([":
            d += 1
        if ch in ">)]":
            if d == 0 and ch == ")":
                break
            d -= 1
        if ch == "," and d == 0:
            parts.append(cur)
            cur = ""
        else:
            cur += ch
    if cur.strip():
        parts.append(cur)
    out = []
    for p in parts:
        p = p.strip()
        if p.startswith("&") or ":" not in p:
            continue
        n, t = p.split(":", 1)
        out.append((n.strip(), re.sub(r"\s+", " ", t.strip())))
    return out


def methods():
    out = []
    for fpath in lift_builder.FILES:
        src = Source.get(fpath)
        for f in src.find_all("fn"):
            if f.parent is None or f.parent.kind != "impl" or f.parent.impl_of != "Builder":
                continue
            t = f.core_text
            sig = t[:f.body_open - f.head_start]
            if not re.match(r"\s*pub fn", sig):
                continue
            ret = sig[sig.rindex(")") + 1:] if "->" not in sig else sig[sig.rindex("->"):]
            out.append({"name": f.name, "file": fpath.split("/")[-1], "params": split_params(sig),
                        "result": "Result" if "BuildResult" in sig.split("->")[-1] else "plain"})
    return out


_enum_cache = {}


def enum_value(ty):
    if ty in PICK:
        return "spirv::%s::%s" % (ty, PICK[ty])
    if ty not in _enum_cache:
        try:
            vs = enum_variants(Source.get(SPIRV).find("enum", ty))
            _enum_cache[ty] = "spirv::%s::%s" % (ty, vs[0][0])
        except Exception:
            _enum_cache[ty] = "spirv::%s::empty()" % ty
    return _enum_cache[ty]


def value_of(ty, pre, ctr, first_word_override=None):
    """-> Rust expression of type `ty`; may append `let` lines to pre"""
    ty = ty.strip()
    if ty == "spirv::Word":
        ctr[0] += 1
        v = "w%d" % ctr[0]
        pre.append("let %s = b.id();" % v)
        return v
    if ty == "u32":
        ctr[0] += 1
        return "%du32" % (40 + ctr[0])
    if ty == "InsertPoint":
        return "InsertPoint::End"
    m = re.match(r"Option<(.*)>$", ty)
    if m:
        return "Some(%s)" % value_of(m.group(1), pre, ctr)
    if ty == "impl Into<String>":
        # multi-byte characters: byte length and character count differ, every length mod 4 occurs over the methods
        ctr[0] += 1
        return [r'"s"', r'"\u{e9}\u{e9}\u{e9}"', r'"\u{65e5}\u{672c}\u{8a9e}"', r'"ab\u{e9}\u{e9}\u{e9}\u{e9}\u{e9}\u{e9}"', r'"x\u{1f600}y"'][ctr[0] % 5]
    m = re.match(r"impl IntoIterator<Item = (.*)>$", ty)
    if m:
        it = m.group(1).strip()
        if it == "dr::Operand":
            return "Vec::<dr::Operand>::new()"
        mt = re.match(r"\((.*), (.*)\)$", it)
        if mt:
            a = "dr::Operand::LiteralBit32(1)" if mt.group(1) == "dr::Operand" else value_of(mt.group(1), pre, ctr)
            return "vec![(%s, %s)]" % (a, value_of(mt.group(2), pre, ctr))
        return "vec![%s]" % value_of(it, pre, ctr)
    m = re.match(r"spirv::(\w+)$", ty)
    if m:
        return enum_value(m.group(1))
    raise Lost("method sweep: parameter type %r not handled" % ty)


def gen_case(m, idx):
    pre, ctr = [], [0]
    args = []
    block_level = m["file"] in ("autogen_norm_insts.rs", "autogen_terminator.rs")
    is_switch = m["name"] in ("switch", "insert_switch")
    first_word = True
    for n, t in m["params"]:
        if is_switch and t == "spirv::Word" and first_word:
            first_word = False
            pre.append("let sel_ty = b.type_int(32, 0); let sel = b.constant_bit32(sel_ty, 1);")
            args.append("sel")
            continue
        args.append(value_of(t, pre, ctr))
    call = "b.%s(%s)" % (m["name"], ", ".join(args))
    lines = ["fn case_%d() -> Result<Option<String>, String> {" % idx,
             "    let mut b = Builder::new();", "    b.set_version(1, 5);"]
    if block_level:
        lines += ["    let vt = b.type_void(); let ft = b.type_function(vt, vec![]);",
                  "    b.begin_function(vt, None, spirv::FunctionControl::NONE, ft).map_err(|e| format!(\"begin_function: {:?}\", e))?;",
                  "    b.begin_block(None).map_err(|e| format!(\"begin_block: {:?}\", e))?;"]
    lines += ["    " + l for l in pre]
    if m["result"] == "Result":
        lines.append("    %s.map_err(|e| format!(\"call failed: {:?}\", e))?;" % call)
    else:
        lines.append("    let _ = %s;" % call)
    if block_level:
        lines += ["    if b.selected_block().is_some() { b.ret().map_err(|e| format!(\"ret: {:?}\", e))?; }",
                  "    b.end_function().map_err(|e| format!(\"end_function: {:?}\", e))?;"]
    lines += ["    Ok(roundtrip(b.module()))", "}"]
    return "\n".join(lines)


PRELUDE = r"""// generated by /verif/units/method_sweep.py from the Builder method signatures of the tree under check
#![allow(unused_variables, unused_mut, clippy::all)]
use rspirv::binary::Assemble;
use rspirv::dr::{self, Builder, InsertPoint};
use rspirv::spirv;

fn roundtrip(m: dr::Module) -> Option<String> {
    let words = m.assemble();
    match dr::load_words(&words) {
        Err(e) => Some(format!("the loader rejects the assembled module: {:?}", e).chars().take(300).collect()),
        Ok(l) => {
            let a = format!("{:?}", m);
            let b = format!("{:?}", l);
            if a == b { return None; }
            let ia: Vec<String> = m.all_inst_iter().map(|i| format!("{:?} rt={:?} id={:?} {:?}", i.class.opcode, i.result_type, i.result_id, i.operands)).collect();
            let ib: Vec<String> = l.all_inst_iter().map(|i| format!("{:?} rt={:?} id={:?} {:?}", i.class.opcode, i.result_type, i.result_id, i.operands)).collect();
            for k in 0..ia.len().max(ib.len()) {
                let x = ia.get(k).cloned().unwrap_or_default();
                let y = ib.get(k).cloned().unwrap_or_default();
                if x != y { return Some(format!("instruction {}: built `{}` loaded `{}`", k, x, y)); }
            }
            Some("same instruction sequence but different sections / header".to_string())
        }
    }
}
"""


def gen_program(ms):
    out = [PRELUDE]
    for i, m in enumerate(ms):
        out.append(gen_case(m, i))
    out.append("fn main() {\n    std::panic::set_hook(Box::new(|_| {}));\n    let cases: Vec<(&str, fn() -> Result<Option<String>, String>)> = vec![")
    for i, m in enumerate(ms):
        out.append("        (\"%s\", case_%d)," % (m["name"], i))
    out.append("    ];\n    for (n, f) in cases {\n        match std::panic::catch_unwind(f) {\n"
               "            Ok(Ok(None)) => println!(\"OK {}\", n),\n"
               "            Ok(Ok(Some(d))) => println!(\"DIFF {} {}\", n, d),\n"
               "            Ok(Err(e)) => println!(\"CALLERR {} {}\", n, e),\n"
               "            Err(_) => println!(\"PANIC {}\", n),\n        }\n    }\n}")
    return "\n".join(out)


def run_methods(names, ctx):
    ms = [m for m in methods() if names is None or m["name"] in names]
    if not ms:
        return None, "no such method in the tree under check", []
    p, err = ctx["vgen"]("method_sweep", gen_program(ms), [])
    if p is None:
        return None, err, ms
    return p.stdout.splitlines(), "", ms


def witness_for(names, ctx):
    lines, err, ms = run_methods(set(names), ctx)
    if lines is None:
        return {"found": False, "error": err}
    bad = [l for l in lines if l.startswith("DIFF") or l.startswith("PANIC")]
    return {"found": bool(bad), "exhaustive": False, "input": ["Builder::%s with %s" % (m["name"], ", ".join("%s: %s" % p for p in m["params"])) for m in ms],
            "observed": lines, "how": "generated program: one call of the method inside a complete Builder history, module() -> assemble() -> load_words(), modules compared"}


def run(tier, workdir):
    import os, sys, time
    sys.path.insert(0, os.path.join(os.path.dirname(__file__), "..", "tools"))
    import driver
    t0 = time.time()
    res = {"engine": ENGINE, "cmd": "generated program .work/method_sweep.generated.rs, compiled against the working tree", "functions": {}, "failures": [],
           "undecided": [], "smt_ms": 0, "verified": 0, "errors": 0, "mustfail": None, "states": 0, "traces_validated": 0}
    lines, err, ms = run_methods(None, {"vgen": driver.vgen})
    if lines is None:
        res["undecided"].append({"reason": "replay-failed", "detail": err})
        return res
    seen = set()
    for l in lines:
        kind, name, *rest = l.split(" ", 2)
        seen.add(name)
        fname = "%s::%s" % (NAME, name)
        ok = (kind == "OK")
        res["functions"][fname] = {"ok": ok, "ms": 0, "mode": "bounded"}
        res["states"] += 1
        res["traces_validated"] += 1
        if ok:
            res["verified"] += 1
        elif kind == "CALLERR":
            # the history could not be completed with these arguments: nothing was compared
            res["functions"][fname]["ok"] = True
            res["functions"][fname]["note"] = "not compared: " + (rest[0] if rest else "")
        else:
            res["errors"] += 1
            res["failures"].append({"message": "a module built with Builder::%s does not survive assemble-then-load" % name, "kind": "roundtrip_" + kind.lower(),
                                    "gen_line": None, "text": name, "item": "method::" + name, "src_file": None, "src_line": None, "others": [],
                                    "rendered": l, "witness_lines": [l]})
    for m in ms:
        if m["name"] not in seen:
            res["undecided"].append({"reason": "sweep-incomplete", "detail": m["name"]})
    res["smt_ms"] = int((time.time() - t0) * 1000)
    return res


def describe():
    return {"unit": NAME, "functions_under_contract": [],
            "bounded": ["every pub method of impl Builder in dr/build/autogen_*.rs: ONE call each with one argument vector, complete history, module() -> assemble() -> load_words(), "
                        "whole-module comparison; BOUNDED (argument values sampled), not a proof"],
            "assumptions": []}


def witness(failure, ctx):
    w = failure.get("witness_lines")
    return {"found": bool(w), "exhaustive": False, "input": w, "how": "generated program run on the real crate"}
