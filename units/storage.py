"""unit `storage` — sr/storage.rs: Token::{new,index}, Storage::{new, append, fetch_or_append},
Index<Token> (C19). Generic `T` whose `==` is an arbitrary deterministic relation `eq_spec`
(no reflexivity assumed — NaN-like values are covered).
"""
import re
from .common import Source, Piece, Gen, Lost, HEADER, count_clauses

NAME = "storage"
FILE = "rspirv/sr/storage.rs"

PRELUDE = r"""
use std::marker::PhantomData;
use vstd::std_specs::cmp::PartialEqSpec;

// R7: `v.iter().position(c)` — generic over the *same closure* the repository passes; specified
// only through the closure's own contract: first index whose call returns true, None iff none.
#[verifier::external_body]
pub fn std_position<T, F: Fn(&T) -> bool>(v: &Vec<T>, f: F) -> (r: Option<usize>)
    requires forall|i: int| 0 <= i < v@.len() ==> call_requires(f, (&#[trigger] v@[i],)),
    ensures
        r matches Some(k) ==> (k < v@.len() && call_ensures(f, (&v@[k as int],), true)
            && forall|j: int| 0 <= j < k ==> call_ensures(f, (&#[trigger] v@[j],), false)),
        r is None ==> forall|j: int| 0 <= j < v@.len() ==> call_ensures(f, (&#[trigger] v@[j],), false),
{ v.iter().position(f) }
"""

LEMMAS = r"""
// ---- C19 over histories: uses only what the contracts above state -------------------------------
pub enum Op<T> { Append(T), FetchOrAppend(T) }

pub open spec fn has_eq<T: PartialEq>(d: Seq<T>, v: T) -> bool {
    exists|i: int| 0 <= i < d.len() && #[trigger] d[i].eq_spec(&v)
}
pub open spec fn is_first_eq<T: PartialEq>(d: Seq<T>, v: T, i: int) -> bool {
    0 <= i < d.len() && d[i].eq_spec(&v) && forall|j: int| 0 <= j < i ==> !#[trigger] d[j].eq_spec(&v)
}
// abstract effect of one operation = the postconditions of append / fetch_or_append
pub open spec fn step_rel<T: PartialEq>(d: Seq<T>, op: Op<T>, d2: Seq<T>, t: int) -> bool {
    match op {
        Op::Append(v) => d2 == d.push(v) && t == d.len(),
        Op::FetchOrAppend(v) =>
            if has_eq(d, v) { d2 == d && is_first_eq(d, v, t) } else { d2 == d.push(v) && t == d.len() },
    }
}
pub open spec fn is_prefix<T>(a: Seq<T>, b: Seq<T>) -> bool {
    a.len() <= b.len() && forall|i: int| 0 <= i < a.len() ==> #[trigger] a[i] == b[i]
}
// a history: states ds[0..=n] (ds[0] empty), tokens ts[0..n), consecutive states related by step_rel
pub open spec fn history<T: PartialEq>(ops: Seq<Op<T>>, ds: Seq<Seq<T>>, ts: Seq<int>) -> bool {
    &&& ds.len() == ops.len() + 1 && ts.len() == ops.len()
    &&& ds[0].len() == 0
    &&& forall|k: int| 0 <= k < ops.len() ==> step_rel(#[trigger] ds[k], ops[k], ds[k + 1], ts[k])
}
pub proof fn prefix_lemma<T: PartialEq>(ops: Seq<Op<T>>, ds: Seq<Seq<T>>, ts: Seq<int>, j: int, k: int)
    requires history(ops, ds, ts), 0 <= j <= k <= ops.len(),
    ensures is_prefix(ds[j], ds[k]),
    decreases k - j,
{
    if j < k {
        prefix_lemma(ops, ds, ts, j, k - 1);
        assert(step_rel(ds[k - 1], ops[k - 1], ds[k], ts[k - 1]));
    }
}
// C19, per token: in range when handed out; an append's token is the old length and holds the value
pub proof fn token_lemma<T: PartialEq>(ops: Seq<Op<T>>, ds: Seq<Seq<T>>, ts: Seq<int>, j: int)
    requires history(ops, ds, ts), 0 <= j < ops.len(),
    ensures
        0 <= ts[j] < ds[j + 1].len(),
        ds[j].len() <= ds[j + 1].len(),
        ops[j] matches Op::Append(v) ==> (ts[j] == ds[j].len() && ds[j + 1][ts[j]] == v),
        // fetch_or_append: token of the FIRST stored value equal to the argument, else an append
        ops[j] matches Op::FetchOrAppend(v) ==> (
            if has_eq(ds[j], v) { ds[j + 1] == ds[j] && is_first_eq(ds[j], v, ts[j]) }
            else { ts[j] == ds[j].len() && ds[j + 1] == ds[j].push(v) }),
{
    assert(step_rel(ds[j], ops[j], ds[j + 1], ts[j]));
    match ops[j] {
        Op::Append(v) => { assert(ds[j + 1] == ds[j].push(v)); }
        Op::FetchOrAppend(v) => { if has_eq(ds[j], v) { } else { assert(ds[j + 1] == ds[j].push(v)); } }
    }
}
// C19: lookups through earlier tokens keep yielding their values
pub proof fn stable_lemma<T: PartialEq>(ops: Seq<Op<T>>, ds: Seq<Seq<T>>, ts: Seq<int>, j: int, k: int)
    requires history(ops, ds, ts), 0 <= j < k <= ops.len(),
    ensures
        0 <= ts[j] < ds[j + 1].len() <= ds[k].len(),
        ds[k][ts[j]] == ds[j + 1][ts[j]],
        ops[j] matches Op::Append(v) ==> ds[k][ts[j]] == v,
{
    token_lemma(ops, ds, ts, j);
    prefix_lemma(ops, ds, ts, j + 1, k);
}
// C19: each append returns a token not returned before; indices are dense in insertion order
pub proof fn fresh_lemma<T: PartialEq>(ops: Seq<Op<T>>, ds: Seq<Seq<T>>, ts: Seq<int>, j: int, k: int)
    requires history(ops, ds, ts), 0 <= j < k < ops.len(), ops[k] is Append,
    ensures ts[k] != ts[j], ts[k] == ds[k].len(),
{
    token_lemma(ops, ds, ts, j);
    token_lemma(ops, ds, ts, k);
    prefix_lemma(ops, ds, ts, j + 1, k);
}
// only appends: the n-th appended value (n = k+1) has index n-1
pub proof fn dense_lemma<T: PartialEq>(ops: Seq<Op<T>>, ds: Seq<Seq<T>>, ts: Seq<int>, k: int)
    requires history(ops, ds, ts), 0 <= k < ops.len(), forall|i: int| 0 <= i < ops.len() ==> (#[trigger] ops[i] is Append),
    ensures ds[k].len() == k, ts[k] == k,
    decreases k,
{
    if k > 0 { dense_lemma(ops, ds, ts, k - 1); assert(step_rel(ds[k - 1], ops[k - 1], ds[k], ts[k - 1])); }
    assert(step_rel(ds[k], ops[k], ds[k + 1], ts[k]));
}
// the real operations realise step_rel (checked against their contracts, never their bodies)
pub fn step_is_append<T>(s: &mut Storage<T>, v: T) -> (t: Token<T>) where T: PartialEq
    requires old(s).data@.len() < 0x1_0000_0000,
    ensures step_rel(old(s).data@, Op::Append(v), final(s).data@, t.index as int),
{ s.append(v) }
pub fn step_is_fetch_or_append<T>(s: &mut Storage<T>, v: T) -> (t: Token<T>) where T: PartialEq
    requires old(s).data@.len() < 0x1_0000_0000, T::obeys_eq_spec(),
    ensures step_rel(old(s).data@, Op::FetchOrAppend(v), final(s).data@, t.index as int),
{ s.fetch_or_append(v) }
"""

C = {
    "Token::new": ("r", "ensures r.index == index,"),
    "Token::index": ("r", "ensures r == self.index,"),
    "Storage::new": ("r", "ensures r.data@.len() == 0,"),
    # the index type is u32: fewer than 2^32 elements is a stated precondition (DESIGN §3)
    "Storage::append": ("r", """requires old(self).data@.len() < 0x1_0000_0000,
    ensures
        final(self).data@ == old(self).data@.push(value),
        r.index as int == old(self).data@.len(),"""),
    "Storage::fetch_or_append": ("r", """requires old(self).data@.len() < 0x1_0000_0000, T::obeys_eq_spec(),
    ensures
        // some stored value equals the argument: token of the FIRST such value, nothing changes
        (exists|i: int| 0 <= i < old(self).data@.len() && #[trigger] old(self).data@[i].eq_spec(&value)) ==> (
            final(self).data@ == old(self).data@
            && (r.index as int) < old(self).data@.len()
            && old(self).data@[r.index as int].eq_spec(&value)
            && forall|j: int| 0 <= j < r.index ==> !#[trigger] old(self).data@[j].eq_spec(&value)),
        // otherwise: exactly an append
        !(exists|i: int| 0 <= i < old(self).data@.len() && #[trigger] old(self).data@[i].eq_spec(&value)) ==> (
            final(self).data@ == old(self).data@.push(value)
            && r.index as int == old(self).data@.len()),"""),
    "Storage::index": ("r", """requires (token.index as int) < self.data@.len(),
    ensures *r == self.data@[token.index as int],"""),
}


def build(tier="quick", must_fail=False):
    g = Gen(NAME if not must_fail else NAME + "_mustfail")
    src = Source.get(FILE)
    g.raw(HEADER)
    g.raw("verus! {")
    g.raw("pub mod sr { pub mod storage {")
    g.raw("use vstd::prelude::*;")
    g.raw(PRELUDE)
    g.emit(Piece(src.find("type", "Index")), name="sr::storage::Index", under_contract=False)
    for sname in ("Token", "Storage"):
        st = Piece(src.find("struct", sname))
        st.sub(r"(\n\s*)(index|marker|data):", r"\1pub \2:", "R15", required=True)
        g.emit(st, name="sr::storage::" + sname, under_contract=False)
    # Clone/Copy for Token: the real impls (Clone::clone is `*self`)
    g.raw("impl<T> Clone for Token<T> { fn clone(&self) -> (r: Self) ensures r == *self { *self } }")
    g.raw("impl<T> Copy for Token<T> {}")

    def fn(qual, hdr, edit=None):
        f = src.find("fn", qual, trait="Index" if qual == "Storage::index" else None) if qual == "Storage::index" \
            else src.find("fn", qual, nth=0 if qual == "Token::index" else None)
        p = Piece(f)
        rn, c = C[qual]
        if must_fail and qual == "Storage::append":
            c = c.replace("ensures", "ensures false,", 1)
        p.name_result(rn)
        if edit:
            edit(p)
        p.add_contract("    " + c)
        g.contract_clauses += count_clauses(c)
        g.raw(hdr + " {")
        g.emit(p, name="sr::storage::" + qual)
        g.raw("}")

    def fetch_edit(p):
        # R7: `X.iter().position(|d| BODY)` -> `std_position(&X, |d: &T| -> (b: bool) ensures <contract> { BODY })`
        # the repository's closure body is kept whatever it is, and verified against the contract
        p.sub(r"([\w.]+)\.iter\(\)\s*\.position\(\|(\w+)\|\s*([^;{}]*?)\)\s*\{",
              r"std_position(&\1, |\2: &T| -> (b: bool) ensures b == \2.eq_spec(&value) { \3 }) {", "R7", count=1, flags=re.S)

    def tok_new_edit(p):
        p.sub(r"pub\(in crate::sr\) fn", "pub fn", "R15", count=1)

    fn("Token::new", "impl<T> Token<T>", tok_new_edit)
    fn("Token::index", "impl<T> Token<T>")
    if not must_fail:
        fn("Storage::new", "impl<T> Storage<T>")
    fn("Storage::append", "impl<T> Storage<T>")
    if not must_fail:
        fn("Storage::fetch_or_append", "impl<T> Storage<T>", fetch_edit)
        f = src.find("impl", "Storage", trait="Index")
        # Index<Token<T>>: real fn body inside a plain method (trait impls cannot carry `requires`)
        fi = [c for c in f.children if c.kind == "fn" and c.name == "index"][0]
        p = Piece(fi)
        p.name_result("r")
        p.add_contract("    " + C["Storage::index"][1])
        g.contract_clauses += count_clauses(C["Storage::index"][1])
        g.raw("// `impl std::ops::Index<Token<T>> for Storage<T>`: the real fn, as an inherent method\n"
              "// (Verus rejects `requires` on trait impls; `type Output = T` substituted)")
        p.sub(r"fn index", "pub fn index_op", "R20", count=1)
        g.raw("impl<T> Storage<T> {")
        g.emit(p, name="sr::storage::Storage::index(Index<Token>)")
        g.raw("}")
        g.raw(LEMMAS)
    g.raw("} } // mod sr::storage")
    g.raw("} // verus!")
    g.raw("fn main() {}")
    return g


def describe():
    return {
        "unit": NAME,
        "functions_under_contract": ["sr::storage::" + k for k in C],
        "assumptions": [
            "R7: Iterator::position = first index whose closure call returns true (stub specified through the closure's own contract)",
            "T::obeys_eq_spec(): `==` on T is a deterministic relation (eq_spec); reflexivity/symmetry NOT assumed",
            "fewer than 2^32 elements (index type u32)",
            "R20: the body of `Index::index` is verified as an inherent method with the precondition `token.index < len` (std would panic otherwise)",
        ],
    }


def witness(failure, ctx):
    """directed search on the real Storage<f32> (values incl. NaN) against a Python model of C19"""
    import itertools
    vals = ["1", "2", "NaN"]
    tried = 0
    for n in range(1, 5):
        for ops in itertools.product(["a:" + v for v in vals] + ["f:" + v for v in vals], repeat=n):
            p, err = ctx["vreplay"](["storage-script"] + list(ops))
            if p is None:
                return {"found": False, "error": err}
            tried += 1
            lines = p.stdout.splitlines()
            data, exp = [], []
            for op in ops:
                v = op[2:]
                if op[0] == "f" and v != "NaN" and v in data:
                    exp.append(data.index(v))
                else:
                    exp.append(len(data))
                    data.append(v)
            got = [int(l.rsplit(" ", 1)[1]) for l in lines[:len(ops)] if "->" in l]
            looks = lines[len(ops)].split()[1:] if len(lines) > len(ops) else []
            explooks = [("%s.0" % data[t]) if data[t] != "NaN" else "NaN" for t in exp]
            if p.returncode != 0 or got != exp or looks != explooks:
                return {"found": True, "exhaustive": False, "input": list(ops),
                        "observed": {"tokens": got, "lookups": looks, "rc": p.returncode},
                        "expected": {"tokens": exp, "lookups": explooks},
                        "how": "vreplay storage-script on the real Storage<f32>"}
    # second family: a value type whose equality is not structural (same key = equal; key N never equal; key W equals every
    # non-W value but not another W): the first equal stored value's token is returned, stored values are never replaced
    vals2 = ["1.a", "1.b", "2.a", "N.a", "W.a"]
    scripts = []
    for n in range(1, 5):
        scripts += [list(o) for o in itertools.product(["a:" + v for v in vals2] + ["f:" + v for v in vals2], repeat=n)]

    def eq(a, b):
        ka, kb = a.split(".")[0], b.split(".")[0]
        if ka == "N" or kb == "N" or (ka == "W" and kb == "W"):
            return False
        return ka == "W" or kb == "W" or ka == kb
    p, err = ctx["vreplay"](["storage-batch"], stdin="\n".join(" ".join(s_) for s_ in scripts) + "\n", timeout=600)
    if p is None or p.returncode != 0:
        return {"found": False, "error": err or (p.stderr[-300:] if p else "")}
    out_lines = p.stdout.splitlines()
    longm = [l for l in out_lines if l.startswith("LONG MISMATCH")]
    if longm:
        return {"found": True, "exhaustive": False, "input": "70000 appends of distinct u32 values, then fetch_or_append(69999)", "observed": longm[:3],
                "how": "vreplay storage-batch: long history on the real Storage<u32>"}
    for ops, line in zip(scripts, [l for l in out_lines if not l.startswith("LONG")]):
        data, exp = [], []
        for op in ops:
            v = op[2:]
            hit = next((i for i, d in enumerate(data) if eq(d, v)), None) if op[0] == "f" else None
            if hit is None:
                exp.append(len(data))
                data.append(v)
            else:
                exp.append(hit)
        want = "tokens %s lookups %s" % (",".join(str(t) for t in exp), ",".join(data[t] for t in exp))
        if line != want:
            return {"found": True, "exhaustive": False, "input": ops, "observed": line, "expected": want,
                    "how": "vreplay storage-batch on the real Storage<V> (V: equality by key only, a NaN-like key, a wildcard key)"}
    return {"found": False, "exhaustive": False, "how": "%d + %d scripts of <= 4 operations agreed" % (tried, len(scripts))}
