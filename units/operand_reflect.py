"""unit `operand_reflect` — dr/autogen_operand.rs: id_ref_any, id_ref_any_mut, the 60 unwrap_*
accessors and the From<payload> conversions, verbatim (C17: an operand reports an id exactly when
it is one of the three id kinds; payload -> operand -> payload is the identity).

additional_operands / required_capabilities / required_extensions are iterator chains over arrays
of flags (mask arms) inside one big function and cannot be taken by Verus: the parser side is proved
against the lifted reflection tables in unit parser_core (three of six functions), and agreement for
EVERY value is swept exhaustively on the real code by unit reflect_sweep.
"""
import re
from .common import Source, Piece, Gen, Lost, HEADER, count_clauses
from . import lib_spirv, lib_dr
from .assemble import operand_variants

NAME = "operand_reflect"
FILE = "rspirv/dr/autogen_operand.rs"


def build(tier="quick", must_fail=False):
    g = Gen(NAME if not must_fail else NAME + "_mustfail")
    src = Source.get(FILE)
    g.raw(HEADER)
    g.raw("verus! {")
    lib_spirv.emit(g, with_alias=True, from_u32=False)
    lib_dr.emit_grammar(g, with_reflect=False)
    lib_dr.emit_dr(g, with_new=False)
    assert g.lines[-1].startswith("} // mod dr")
    g.lines.pop()
    g.raw("// R10: `ref other => panic!(\"Expected ..\")` — std panics exactly when reached\n"
          "#[verifier::external_body]\npub fn unreachable_panic<T>() -> (r: T) requires false { unimplemented!() }")
    variants = dict(operand_variants())
    g.raw("pub open spec fn is_id_kind(op: Operand) -> bool { op is IdRef || op is IdScope || op is IdMemorySemantics }")
    g.raw("pub open spec fn id_of(op: Operand) -> u32 { match op { Operand::IdRef(v) => v, Operand::IdScope(v) => v, Operand::IdMemorySemantics(v) => v, _ => 0 } }")
    g.raw("impl Operand {")
    f = src.find("fn", "Operand::id_ref_any")
    p = Piece(f)
    p.name_result("r")
    c = "    ensures (r is Some) <==> is_id_kind(*self), r matches Some(v) ==> v == id_of(*self),"
    if must_fail:
        c = "    ensures false,"
    p.add_contract(c)
    g.contract_clauses += 2
    g.emit(p, name="dr::Operand::id_ref_any")
    n_unwrap = 0
    if not must_fail:
        # id_ref_any_mut: or-pattern with a mutable-reference binding is rejected by the installed Verus (listed as not covered)
        for imp in src.find_all("impl", lambda i: i.impl_of == "Operand" and i.impl_trait is None):
            for f in imp.children:
                if f.kind != "fn" or not f.name.startswith("unwrap_"):
                    continue
                t = f.core_text
                m = re.search(r"Self::(\w+)\((?:ref )?v\) => v", t)
                if not m:
                    raise Lost("%s: unexpected shape" % f.name)
                V = m.group(1)
                p = Piece(f)
                p.name_result("r")
                p.sub(r"ref other => panic!\([^;]*?\),\n", "_ => unreachable_panic(),\n", "R10", count=1, flags=re.S)
                if variants[V] == "String":
                    p.add_contract("    requires self is %s," % V)   # returns &str: only panic freedom
                else:
                    p.add_contract("    requires self is %s,\n    ensures *self == Operand::%s(r)," % (V, V))
                g.contract_clauses += 2
                g.emit(p, name="dr::Operand::" + f.name)
                n_unwrap += 1
    g.raw("}")
    g.n_unwrap = n_unwrap
    # From<payload> impls: the real bodies, as plain functions (trait impls cannot carry ensures for the
    # implicit conversion in this Verus build, cf. R22)
    n_from = 0
    if not must_fail:
        for imp in src.find_all("impl", lambda i: i.impl_of == "Operand" and i.impl_trait == "From"):
            fs = [c_ for c_ in imp.children if c_.kind == "fn" and c_.name == "from"]
            if len(fs) != 1:
                continue
            t = fs[0].core_text
            m = re.search(r"fn from\((\w+): ([^)]+)\) -> Self \{\s*Self::(\w+)\((\w+)\)\s*\}", t)
            if not m:
                # a conversion that is not `Self::V(arg)` cannot be read as "wraps the payload": undecided, the witness search decides
                raise Lost("impl From<..> for Operand: `from` is not a plain `Self::Variant(arg)`: %s" % re.sub(r"\s+", " ", t)[:120])
            arg, ty, V = m.group(1), m.group(2), m.group(3)
            p = Piece(fs[0])
            p.sub(r"fn from\(", "pub fn from_%s_%d(" % (V, n_from), "R20", count=1)
            p.sub(r"-> Self", "-> (r: Operand)", "contract", count=1)
            p.sub(r"Self::%s\(" % V, "Operand::%s(" % V, "R20", count=1)
            p.add_contract("    ensures r == Operand::%s(%s)," % (V, arg))
            g.contract_clauses += 1
            g.emit(p, name="dr::<Operand as From<%s>>::from" % ty)
            n_from += 1
    g.n_from = n_from
    g.raw("} // mod dr")
    g.raw("} // verus!")
    g.raw("fn main() {}")
    return g


def describe():
    return {
        "unit": NAME,
        "functions_under_contract": ["dr::Operand::id_ref_any", "dr::Operand::unwrap_* (60)",
                                     "dr::<Operand as From<_>>::from (payload conversions)"],
        "assumptions": ["R10: panic!() panics exactly when reached (unwrap_* get the precondition `self is K`)",
                        "R20: From impl bodies verified as plain functions",
                        "NOT under Verus: id_ref_any_mut (or-pattern with &mut binding unsupported), additional_operands / required_capabilities / required_extensions (iterator chains); "
                        "capability/extension lists cannot be compared with the Khronos grammar (JSON absent, not in the O4 snapshot)"],
    }


WITNESS_PROG = r"""// generated by /verif/units/operand_reflect.py: payload -> Operand -> payload on the real crate
#![allow(unused)]
use rspirv::dr::Operand;
use rspirv::spirv;
fn main() {
    let mut bad = 0;
    for s in ["", "a", "main", "a\0b", "\0", "name\0", "\u{e4}\0\u{e4}"] {
        let o = Operand::from(s.to_string());
        if o.unwrap_literal_string() != s { bad += 1; println!("MISMATCH From<String> {:?} -> {:?}", s, o.unwrap_literal_string()); }
        let o2 = Operand::from(s);
        if o2.unwrap_literal_string() != s { bad += 1; println!("MISMATCH From<&str> {:?} -> {:?}", s, o2.unwrap_literal_string()); }
        let o3: Operand = s.into();
        if o3 != Operand::LiteralString(s.to_string()) { bad += 1; println!("MISMATCH Into {:?} -> {:?}", s, o3); }
    }
    for w in [0u32, 1, 0x7fff_ffff, 0x8000_0000, 0xffff_ffff, 0x0001_0000] {
        if Operand::from(w).unwrap_literal_bit32() != w { bad += 1; println!("MISMATCH From<u32> {}", w); }
    }
    for w in [0u64, 1, 0xffff_ffff, 0x1_0000_0000, u64::MAX, 0x8000_0000_0000_0000] {
        if Operand::from(w).unwrap_literal_bit64() != w { bad += 1; println!("MISMATCH From<u64> {}", w); }
    }
    for n in 0u32..=7000 {
        if let Some(v) = spirv::Op::from_u32(n) { if Operand::from(v).unwrap_literal_spec_constant_op_integer() != v { bad += 1; println!("MISMATCH From<Op> {}", n); } }
        if let Some(v) = spirv::Capability::from_u32(n) { if Operand::from(v).unwrap_capability() != v { bad += 1; println!("MISMATCH From<Capability> {}", n); } }
        if let Some(v) = spirv::StorageClass::from_u32(n) { if Operand::from(v).unwrap_storage_class() != v { bad += 1; println!("MISMATCH From<StorageClass> {}", n); } }
        if let Some(v) = spirv::Decoration::from_u32(n) { if Operand::from(v).unwrap_decoration() != v { bad += 1; println!("MISMATCH From<Decoration> {}", n); } }
    }
    for b in [0u32, 1, 2, 3, 0x10, 0x1f] {
        if let Some(v) = spirv::MemoryAccess::from_bits(b) { if Operand::from(v).unwrap_memory_access() != v { bad += 1; println!("MISMATCH From<MemoryAccess> {}", b); } }
    }
    // an operand reports an id exactly when it is one of the three id kinds
    for (o, want) in [(Operand::IdRef(7), Some(7u32)), (Operand::IdScope(8), Some(8)), (Operand::IdMemorySemantics(9), Some(9)),
                      (Operand::LiteralBit32(7), None), (Operand::LiteralExtInstInteger(7), None), (Operand::LiteralString("x".into()), None)] {
        if o.id_ref_any() != want { bad += 1; println!("MISMATCH id_ref_any {:?}", o); }
    }
    for v in [0u32, 1, 0x7fff_ffff, u32::MAX] {
        for o in [Operand::IdRef(v), Operand::IdScope(v), Operand::IdMemorySemantics(v)] {
            if o.id_ref_any() != Some(v) { bad += 1; println!("MISMATCH id_ref_any {:?} -> {:?}", o, o.id_ref_any()); }
            let mut o2 = o.clone();
            match o2.id_ref_any_mut() { Some(r) => { *r = r.wrapping_add(5); } None => { bad += 1; println!("MISMATCH id_ref_any_mut {:?} -> None", o); } }
            if o2.id_ref_any() != Some(v.wrapping_add(5)) { bad += 1; println!("MISMATCH rewriting the id of {:?} gave {:?}", o, o2); }
        }
        for o in [Operand::LiteralBit32(v), Operand::LiteralExtInstInteger(v)] {
            let mut o2 = o.clone();
            if o.id_ref_any().is_some() || o2.id_ref_any_mut().is_some() { bad += 1; println!("MISMATCH {:?} reports an id", o); }
        }
    }
    // rewriting an id changes exactly the corresponding word of the assembled instruction
    {
        use rspirv::binary::Assemble;
        let mut i = rspirv::dr::Instruction::new(spirv::Op::AtomicLoad, Some(1), Some(2), vec![Operand::IdRef(0), Operand::IdScope(0), Operand::IdMemorySemantics(0)]);
        let before = i.assemble();
        for k in 0..3 {
            let mut j = i.clone();
            if let Some(r) = j.operands[k].id_ref_any_mut() { *r = 77; }
            let after = j.assemble();
            let diff: Vec<usize> = (0..before.len().max(after.len())).filter(|x| before.get(*x) != after.get(*x)).collect();
            if diff != vec![3 + k] { bad += 1; println!("MISMATCH rewriting operand {} of AtomicLoad changed words {:?}", k, diff); }
        }
    }
    println!("checked, {} mismatches", bad);
}
"""


def witness(failure, ctx):
    p, err = ctx["vgen"]("conv_witness", WITNESS_PROG, [])
    if p is None:
        return {"found": False, "error": err}
    lines = p.stdout.splitlines()
    mm = [l for l in lines if l.startswith("MISMATCH")]
    if p.returncode != 0 and not mm:
        mm = ["the program panicked: " + p.stderr[-200:]]
    return {"found": bool(mm), "exhaustive": False, "input": mm[:5], "observed": lines[-1:],
            "how": "generated program: payload -> Operand::from -> unwrap_* on the real crate (strings incl. NUL, words, every Op / Capability / StorageClass / Decoration value)"}
