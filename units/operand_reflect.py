"""unit `operand_reflect` — dr/autogen_operand.rs: id_ref_any, id_ref_any_mut, the 60 unwrap_*
accessors and the From<payload> conversions, verbatim (C17: an operand reports an id exactly when
it is one of the three id kinds; payload -> operand -> payload is the identity).

additional_operands / required_capabilities / required_extensions are iterator chains over arrays
of flags (mask arms) inside one big function and cannot be taken by Verus: the parser side is proved
against the lifted reflection tables in unit parser_core (three of six functions), and agreement for
EVERY value is swept exhaustively on the real code by unit reflect_sweep.
"""
import re
from .common import Source, Piece, Gen, Lost, HEADER, count_clauses
from . import lib_spirv, lib_dr
from .assemble import operand_variants

NAME = "operand_reflect"
FILE = "rspirv/dr/autogen_operand.rs"


def build(tier="quick", must_fail=False):
    g = Gen(NAME if not must_fail else NAME + "_mustfail")
    src = Source.get(FILE)
    g.raw(HEADER)
    g.raw("verus! {")
    lib_spirv.emit(g, with_alias=True, from_u32=False)
    lib_dr.emit_grammar(g, with_reflect=False)
    lib_dr.emit_dr(g, with_new=False)
    assert g.lines[-1].startswith("} // mod dr")
    g.lines.pop()
    g.raw("// R10: `ref other => panic!(\"Expected ..\")` — std panics exactly when reached\n"
          "#[verifier::external_body]\npub fn unreachable_panic<T>() -> (r: T) requires false { unimplemented!() }")
    variants = dict(operand_variants())
    g.raw("pub open spec fn is_id_kind(op: Operand) -> bool { op is IdRef || op is IdScope || op is IdMemorySemantics }")
    g.raw("pub open spec fn id_of(op: Operand) -> u32 { match op { Operand::IdRef(v) => v, Operand::IdScope(v) => v, Operand::IdMemorySemantics(v) => v, _ => 0 } }")
    g.raw("impl Operand {")
    f = src.find("fn", "Operand::id_ref_any")
    p = Piece(f)
    p.name_result("r")
    c = "    ensures (r is Some) <==> is_id_kind(*self), r matches Some(v) ==> v == id_of(*self),"
    if must_fail:
        c = "    ensures false,"
    p.add_contract(c)
    g.contract_clauses += 2
    g.emit(p, name="dr::Operand::id_ref_any")
    n_unwrap = 0
    if not must_fail:
        # id_ref_any_mut: or-pattern with a mutable-reference binding is rejected by the installed Verus (listed as not covered)
        for imp in src.find_all("impl", lambda i: i.impl_of == "Operand" and i.impl_trait is None):
            for f in imp.children:
                if f.kind != "fn" or not f.name.startswith("unwrap_"):
                    continue
                t = f.core_text
                m = re.search(r"Self::(\w+)\((?:ref )?v\) => v", t)
                if not m:
                    raise Lost("%s: unexpected shape" % f.name)
                V = m.group(1)
                p = Piece(f)
                p.name_result("r")
                p.sub(r"ref other => panic!\([^;]*?\),\n", "_ => unreachable_panic(),\n", "R10", count=1, flags=re.S)
                if variants[V] == "String":
                    p.add_contract("    requires self is %s," % V)   # returns &str: only panic freedom
                else:
                    p.add_contract("    requires self is %s,\n    ensures *self == Operand::%s(r)," % (V, V))
                g.contract_clauses += 2
                g.emit(p, name="dr::Operand::" + f.name)
                n_unwrap += 1
    g.raw("}")
    g.n_unwrap = n_unwrap
    # From<payload> impls: the real bodies, as plain functions (trait impls cannot carry ensures for the
    # implicit conversion in this Verus build, cf. R22)
    n_from = 0
    if not must_fail:
        for imp in src.find_all("impl", lambda i: i.impl_of == "Operand" and i.impl_trait == "From"):
            fs = [c_ for c_ in imp.children if c_.kind == "fn" and c_.name == "from"]
            if len(fs) != 1:
                continue
            t = fs[0].core_text
            m = re.search(r"fn from\((\w+): ([^)]+)\) -> Self \{\s*Self::(\w+)\((\w+)\)\s*\}", t)
            if not m:
                continue  # the string / &str conversions (to_owned) are outside
            arg, ty, V = m.group(1), m.group(2), m.group(3)
            p = Piece(fs[0])
            p.sub(r"fn from\(", "pub fn from_%s_%d(" % (V, n_from), "R20", count=1)
            p.sub(r"-> Self", "-> (r: Operand)", "contract", count=1)
            p.sub(r"Self::%s\(" % V, "Operand::%s(" % V, "R20", count=1)
            p.add_contract("    ensures r == Operand::%s(%s)," % (V, arg))
            g.contract_clauses += 1
            g.emit(p, name="dr::<Operand as From<%s>>::from" % ty)
            n_from += 1
    g.n_from = n_from
    g.raw("} // mod dr")
    g.raw("} // verus!")
    g.raw("fn main() {}")
    return g


def describe():
    return {
        "unit": NAME,
        "functions_under_contract": ["dr::Operand::id_ref_any", "dr::Operand::unwrap_* (60)",
                                     "dr::<Operand as From<_>>::from (payload conversions)"],
        "assumptions": ["R10: panic!() panics exactly when reached (unwrap_* get the precondition `self is K`)",
                        "R20: From impl bodies verified as plain functions",
                        "NOT under Verus: id_ref_any_mut (or-pattern with &mut binding unsupported), additional_operands / required_capabilities / required_extensions (iterator chains); "
                        "capability/extension lists cannot be compared with the Khronos grammar (JSON absent, not in the O4 snapshot)"],
    }
