"""unit `traversal_sweep` — BOUNDED stand-in for C15 (never counted as proved): the six traversal
methods and Module::assemble_into are iterator-adapter chains Verus cannot take, and the Kani
harness over the unmodified files (units/kani_traversal.py, kept for reference) exhausts memory
(2 x 11 GB after 40 min, no verdict) — so the bounded check is an exhaustive ENUMERATION of module
shapes on the real crate (vreplay traversal-sweep):
  sweep A: header / memory model present or absent x each of the 10 vector sections with 0, 1 or 2
           instructions (4 x 3^10 shapes) x 3 function configurations;
  sweep B: 0..2 functions, each with def / end present or absent, 0..2 parameters, 0..2 blocks with
           label present or absent and 0..2 instructions (172 function shapes, all 172^2 pairs) x 3 global shapes.
Instructions are tagged in layout order; for every module: all_inst_iter(+_mut) visit tags 1..n in
order, global_inst_iter(+_mut) the prefix before the first function, Function::all_inst_iter(+_mut)
the function's slice, and Module::assemble() == header words ++ the assembly of each visited instruction.
Block and Function `assemble_into` are additionally PROVED (unbounded) in unit `assemble`."""
import os
import sys
import time
sys.path.insert(0, os.path.join(os.path.dirname(__file__), "..", "tools"))

NAME = "traversal_sweep"
ENGINE = "replay-bounded"


def run(tier, workdir):
    import driver
    t0 = time.time()
    p, err = driver.vreplay(["traversal-sweep"], timeout=3000)
    res = {"engine": ENGINE, "cmd": "vreplay traversal-sweep (real rspirv built from the working tree)", "functions": {}, "failures": [],
           "undecided": [], "smt_ms": 0, "verified": 0, "errors": 0, "mustfail": None, "states": 0, "traces_validated": 0}
    if p is None or p.returncode != 0:
        res["undecided"].append({"reason": "replay-failed", "detail": err or (p.stderr[-800:] if p else "")})
        return res
    counts, mism = {}, []
    for line in p.stdout.splitlines():
        if line.startswith("checked "):
            _, k, n = line.split()
            counts[k] = int(n)
        elif line.startswith("MISMATCH "):
            mism.append(line)
    for k in ("A", "B"):
        fname = "%s::sweep_%s" % (NAME, k)
        if k not in counts:
            res["functions"][fname] = {"ok": False, "ms": 0, "mode": "bounded"}
            res["undecided"].append({"reason": "sweep-incomplete", "detail": k})
            continue
        res["functions"][fname] = {"ok": not mism, "ms": 0, "mode": "bounded", "modules": counts[k]}
        res["states"] += counts[k]
        res["traces_validated"] += counts[k]
    if mism:
        res["errors"] = 1
        res["failures"].append({"message": "a traversal does not visit the assembled instruction sequence", "kind": "sweep_mismatch",
                                "gen_line": None, "text": mism[0].split()[1], "item": "traversal::" + mism[0].split()[1],
                                "src_file": "rspirv/dr/constructs.rs", "src_line": None, "others": [], "rendered": "\n".join(mism[:5]),
                                "witness_lines": mism[:5]})
    else:
        res["verified"] = 2
    res["smt_ms"] = int((time.time() - t0) * 1000)
    return res


def describe():
    return {"unit": NAME, "functions_under_contract": [],
            "bounded": ["dr::Module::{all_inst_iter, all_inst_iter_mut, global_inst_iter, global_inst_iter_mut}, dr::Function::{all_inst_iter, all_inst_iter_mut}, "
                        "<dr::Module as Assemble>::assemble_into: exhaustive enumeration on the real crate, sections <= 2 instructions, <= 2 functions x <= 2 blocks x <= 2 instructions, "
                        "every present/absent combination (about 1.5 million modules); BOUNDED, not a proof"],
            "assumptions": ["the chain code has no size-dependent branch (an argument, not a proof)"]}


def witness(failure, ctx):
    w = failure.get("witness_lines")
    return {"found": bool(w), "exhaustive": False, "input": w, "how": "vreplay traversal-sweep on the real crate"}
