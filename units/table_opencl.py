"""unit table_opencl — see units/tables.py"""
from . import tables

NAME = "table_opencl"
RLIMIT = 100


def build(tier="quick", must_fail=False):
    return tables.build_table("opencl", tier, must_fail)


def describe():
    return tables.describe_table("opencl")


def witness(failure, ctx):
    return tables.witness_table("opencl", failure, ctx)
