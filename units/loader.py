"""unit `loader` — dr/loader.rs: Loader::{new, module, initialize, finalize, consume_header,
consume_instruction} and the `if_ret_err!` macro, verbatim (C05; panic obligations feed C04).

Spec side: `step_spec` is the bracket automaton written from C05's statement; the real
consume_instruction must produce exactly `step_spec`'s loader (whole-state equality = full frame:
exactly one section / open function / open block gets `push(inst)`, everything else unchanged)
and its error. The opcode classes are the O2 / specification sets the reflect predicates are
proved against in unit `reflect`.
"""
import re
from .common import Source, Piece, Gen, Lost, HEADER, count_clauses
from . import lib_spirv, lib_dr

NAME = "loader"
FILE = "rspirv/dr/loader.rs"
PARSER = "rspirv/binary/parser.rs"

BINARY_MOD = r"""
pub mod binary {
use vstd::prelude::*;
use crate::dr;
// R3: `Box<dyn error::Error + Send + Sync>` — opaque box with a ghost payload
pub struct BoxedError { pub payload: Ghost<crate::dr::loader::Error> }
// R3: `Box::new(E)` coerced to the boxed trait object
pub fn boxed_error(e: crate::dr::loader::Error) -> (r: BoxedError)
    ensures r.payload@ == e,
{ BoxedError { payload: Ghost(e) } }
%(ACTION)s
pub use self::Action as ParseAction;
}
"""

SPEC = r"""
// ---- C05: the bracket automaton, written from the statement -------------------------------------
pub enum Kind {
    Capability, Extension, ExtInstImport, MemoryModel, EntryPoint, ExecutionMode,
    DebugStringSource, DebugName, ModuleProcessed, LocDebug, Annotation, TypeOrConst,
    Variable, Undef, Function, FunctionEnd, FunctionParameter, Label, Terminator, Other,
}
pub open spec fn kind_of(op: spirv::Op) -> Kind {
    if op == spirv::Op::Capability { Kind::Capability }
    else if op == spirv::Op::Extension { Kind::Extension }
    else if op == spirv::Op::ExtInstImport { Kind::ExtInstImport }
    else if op == spirv::Op::MemoryModel { Kind::MemoryModel }
    else if op == spirv::Op::EntryPoint { Kind::EntryPoint }
    else if op == spirv::Op::ExecutionMode || op == spirv::Op::ExecutionModeId { Kind::ExecutionMode }
    else if op == spirv::Op::String || op == spirv::Op::SourceExtension || op == spirv::Op::Source
        || op == spirv::Op::SourceContinued { Kind::DebugStringSource }
    else if op == spirv::Op::Name || op == spirv::Op::MemberName { Kind::DebugName }
    else if op == spirv::Op::ModuleProcessed { Kind::ModuleProcessed }
    else if grammar::reflect::spec_loc_debug(op) { Kind::LocDebug }
    else if grammar::reflect::class_annotation(op) { Kind::Annotation }
    else if grammar::reflect::class_type(op) || grammar::reflect::class_constant(op) { Kind::TypeOrConst }
    else if op == spirv::Op::Variable { Kind::Variable }
    else if op == spirv::Op::Undef { Kind::Undef }
    else if op == spirv::Op::Function { Kind::Function }
    else if op == spirv::Op::FunctionEnd { Kind::FunctionEnd }
    else if op == spirv::Op::FunctionParameter { Kind::FunctionParameter }
    else if op == spirv::Op::Label { Kind::Label }
    else if grammar::reflect::spec_block_terminator(op) { Kind::Terminator }
    else { Kind::Other }
}
pub enum Outcome { Continue, Err(Error) }

pub struct LoaderV { pub module: dr::ModuleV, pub function: Option<dr::FunctionV>, pub block: Option<dr::BlockV> }

pub open spec fn push_block(l: LoaderV, inst: dr::Instruction) -> LoaderV {
    let b = l.block->0;
    LoaderV { block: Some(dr::BlockV { instructions: b.instructions.push(inst), ..b }), ..l }
}
pub open spec fn push_tgv(l: LoaderV, inst: dr::Instruction) -> LoaderV {
    LoaderV { module: dr::ModuleV { types_global_values: l.module.types_global_values.push(inst), ..l.module }, ..l }
}
// one step: new loader state and outcome, as a function of the old state and the instruction
pub open spec fn step_spec(l: LoaderV, inst: dr::Instruction) -> (LoaderV, Outcome) {
    let m = l.module;
    let fn_open = l.function is Some;
    let blk_open = l.block is Some;
    match kind_of(inst.class.opcode) {
        Kind::Capability => (LoaderV { module: dr::ModuleV { capabilities: m.capabilities.push(inst), ..m }, ..l }, Outcome::Continue),
        Kind::Extension => (LoaderV { module: dr::ModuleV { extensions: m.extensions.push(inst), ..m }, ..l }, Outcome::Continue),
        Kind::ExtInstImport => (LoaderV { module: dr::ModuleV { ext_inst_imports: m.ext_inst_imports.push(inst), ..m }, ..l }, Outcome::Continue),
        Kind::MemoryModel => (LoaderV { module: dr::ModuleV { memory_model: Some(inst), ..m }, ..l }, Outcome::Continue),
        Kind::EntryPoint => (LoaderV { module: dr::ModuleV { entry_points: m.entry_points.push(inst), ..m }, ..l }, Outcome::Continue),
        Kind::ExecutionMode => (LoaderV { module: dr::ModuleV { execution_modes: m.execution_modes.push(inst), ..m }, ..l }, Outcome::Continue),
        Kind::DebugStringSource => (LoaderV { module: dr::ModuleV { debug_string_source: m.debug_string_source.push(inst), ..m }, ..l }, Outcome::Continue),
        Kind::DebugName => (LoaderV { module: dr::ModuleV { debug_names: m.debug_names.push(inst), ..m }, ..l }, Outcome::Continue),
        Kind::ModuleProcessed => (LoaderV { module: dr::ModuleV { debug_module_processed: m.debug_module_processed.push(inst), ..m }, ..l }, Outcome::Continue),
        Kind::LocDebug => if blk_open { (push_block(l, inst), Outcome::Continue) } else { (push_tgv(l, inst), Outcome::Continue) },
        Kind::Annotation => (LoaderV { module: dr::ModuleV { annotations: m.annotations.push(inst), ..m }, ..l }, Outcome::Continue),
        Kind::TypeOrConst => (push_tgv(l, inst), Outcome::Continue),
        // variables and undefs are module-level exactly when no function is open
        Kind::Variable | Kind::Undef | Kind::Other =>
            if !(kind_of(inst.class.opcode) is Other) && !fn_open { (push_tgv(l, inst), Outcome::Continue) }
            else if !blk_open { (l, Outcome::Err(Error::DetachedInstruction(Some(inst)))) }
            else { (push_block(l, inst), Outcome::Continue) },
        Kind::Function =>
            if fn_open { (l, Outcome::Err(Error::NestedFunction)) }
            else { (LoaderV { function: Some(dr::FunctionV { def: Some(inst), end: None, parameters: Seq::empty(), blocks: Seq::empty() }), ..l }, Outcome::Continue) },
        Kind::FunctionEnd =>
            if !fn_open { (l, Outcome::Err(Error::MismatchedFunctionEnd)) }
            else if blk_open { (l, Outcome::Err(Error::UnclosedBlock)) }
            else { (LoaderV { module: dr::ModuleV { functions: m.functions.push(dr::FunctionV { end: Some(inst), ..l.function->0 }), ..m },
                             function: None, ..l }, Outcome::Continue) },
        Kind::FunctionParameter =>
            if !fn_open { (l, Outcome::Err(Error::DetachedFunctionParameter)) }
            else { (LoaderV { function: Some(dr::FunctionV { parameters: (l.function->0).parameters.push(inst), ..l.function->0 }), ..l }, Outcome::Continue) },
        Kind::Label =>
            if !fn_open { (l, Outcome::Err(Error::DetachedBlock)) }
            else if blk_open { (l, Outcome::Err(Error::NestedBlock)) }
            else { (LoaderV { block: Some(dr::BlockV { label: Some(inst), instructions: Seq::empty() }), ..l }, Outcome::Continue) },
        Kind::Terminator =>
            if !blk_open { (l, Outcome::Err(Error::MismatchedTerminator)) }
            else { (LoaderV { function: Some(dr::FunctionV { blocks: (l.function->0).blocks.push(push_block(l, inst).block->0), ..l.function->0 }),
                             block: None, ..l }, Outcome::Continue) },
    }
}
pub open spec fn outcome_of(a: ParseAction) -> Outcome {
    match a {
        ParseAction::Continue => Outcome::Continue,
        ParseAction::Stop => Outcome::Continue, // never produced by the loader (see postconditions)
        ParseAction::Error(e) => Outcome::Err(e.payload@),
    }
}
// ---- representation invariant of the module under construction -------------------------------------
pub open spec fn is_term(i: dr::Instruction) -> bool { grammar::reflect::spec_block_terminator(i.class.opcode) }
// a finished block: label, a last instruction that is a terminator, no other terminator
pub open spec fn wf_block(b: dr::BlockV) -> bool {
    b.label is Some && b.instructions.len() > 0 && is_term(b.instructions.last())
    && forall|k: int| 0 <= k < b.instructions.len() - 1 ==> !is_term(#[trigger] b.instructions[k])
}
pub open spec fn wf_open_block(b: dr::BlockV) -> bool {
    b.label is Some && forall|k: int| 0 <= k < b.instructions.len() ==> !is_term(#[trigger] b.instructions[k])
}
pub open spec fn wf_function(f: dr::FunctionV) -> bool {
    f.def is Some && f.end is Some && forall|k: int| 0 <= k < f.blocks.len() ==> wf_block(#[trigger] f.blocks[k])
}
pub open spec fn wf_open_function(f: dr::FunctionV) -> bool {
    f.def is Some && f.end is None && forall|k: int| 0 <= k < f.blocks.len() ==> wf_block(#[trigger] f.blocks[k])
}
pub open spec fn wf_v(l: LoaderV) -> bool {
    &&& (l.block is Some ==> l.function is Some)
    &&& (l.block matches Some(b) ==> wf_open_block(b))
    &&& (l.function matches Some(f) ==> wf_open_function(f))
    &&& forall|k: int| 0 <= k < l.module.functions.len() ==> wf_function(#[trigger] l.module.functions[k])
}
"""

LOADER_WF = r"""
impl Loader {
    pub open spec fn view(&self) -> LoaderV {
        LoaderV {
            module: dr::module_view(self.module),
            function: match self.function { Some(f) => Some(dr::function_view(f)), None => None },
            block: match self.block { Some(b) => Some(dr::block_view(b)), None => None },
        }
    }
    // block open => function open (what `self.function.as_mut().unwrap()` relies on) + the
    // structural invariant C05 states for accepted modules
    pub open spec fn wf(&self) -> bool { wf_v(self.view()) }
}
"""

LEMMAS = r"""
// ---- C05: acceptance == well-bracketedness, over all finite instruction sequences ----------------
// abstract run over kinds only: state (fn_open, blk_open); None = rejected
pub open spec fn astep(s: (bool, bool), k: Kind) -> Option<(bool, bool)> {
    let (f, b) = s;
    match k {
        Kind::Function => if f { None } else { Some((true, false)) },
        Kind::FunctionEnd => if !f || b { None } else { Some((false, false)) },
        Kind::FunctionParameter => if !f { None } else { Some(s) },
        Kind::Label => if !f || b { None } else { Some((true, true)) },
        Kind::Terminator => if !b { None } else { Some((f, false)) },
        Kind::Variable | Kind::Undef => if !f { Some(s) } else if b { Some(s) } else { None },
        Kind::Other => if b { Some(s) } else { None },
        _ => Some(s),   // module-level classes and location debug are accepted in every state
    }
}
pub open spec fn arun(ks: Seq<Kind>) -> Option<(bool, bool)>
    decreases ks.len(),
{
    if ks.len() == 0 { Some((false, false)) } else {
        match arun(ks.drop_last()) { None => None, Some(s) => astep(s, ks.last()) }
    }
}
pub open spec fn accepted(ks: Seq<Kind>) -> bool { arun(ks) == Some((false, false)) }
// declarative well-bracketedness: depth profile of functions and blocks
pub open spec fn fdepth(ks: Seq<Kind>) -> int decreases ks.len() {
    if ks.len() == 0 { 0 } else { fdepth(ks.drop_last()) + (if ks.last() is Function { 1int } else if ks.last() is FunctionEnd { -1int } else { 0int }) }
}
pub open spec fn bdepth(ks: Seq<Kind>) -> int decreases ks.len() {
    if ks.len() == 0 { 0 } else { bdepth(ks.drop_last()) + (if ks.last() is Label { 1int } else if ks.last() is Terminator { -1int } else { 0int }) }
}
// every prefix: depths within {0,1}; brackets and placement rules of C05
pub open spec fn placement_ok(pre: Seq<Kind>, k: Kind) -> bool {
    let f = fdepth(pre) == 1; let b = bdepth(pre) == 1;
    match k {
        Kind::Function => !f,
        Kind::FunctionEnd => f && !b,
        Kind::FunctionParameter => f,
        Kind::Label => f && !b,
        Kind::Terminator => b,
        Kind::Variable | Kind::Undef => !f || b,
        Kind::Other => b,
        _ => true,
    }
}
pub open spec fn well_bracketed(ks: Seq<Kind>) -> bool {
    &&& forall|i: int| 0 <= i < ks.len() ==> placement_ok(ks.subrange(0, i), #[trigger] ks[i])
    &&& fdepth(ks) == 0 && bdepth(ks) == 0
}
pub proof fn arun_tracks_depth(ks: Seq<Kind>)
    requires forall|i: int| 0 <= i < ks.len() ==> placement_ok(ks.subrange(0, i), #[trigger] ks[i]),
    ensures arun(ks) == Some((fdepth(ks) == 1, bdepth(ks) == 1)), 0 <= fdepth(ks) <= 1, 0 <= bdepth(ks) <= 1,
        bdepth(ks) == 1 ==> fdepth(ks) == 1,
    decreases ks.len(),
{
    if ks.len() > 0 {
        let pre = ks.drop_last();
        assert forall|i: int| 0 <= i < pre.len() implies placement_ok(pre.subrange(0, i), #[trigger] pre[i]) by {
            assert(pre.subrange(0, i) =~= ks.subrange(0, i)); assert(pre[i] == ks[i]);
        }
        arun_tracks_depth(pre);
        assert(ks.subrange(0, ks.len() - 1) =~= pre);
        assert(placement_ok(pre, ks[ks.len() - 1]));
    }
}
pub proof fn arun_some_implies_placement(ks: Seq<Kind>)
    requires arun(ks) is Some,
    ensures forall|i: int| 0 <= i < ks.len() ==> placement_ok(ks.subrange(0, i), #[trigger] ks[i]),
    decreases ks.len(),
{
    if ks.len() > 0 {
        let pre = ks.drop_last();
        arun_some_implies_placement(pre);
        arun_tracks_depth(pre);
        assert forall|i: int| 0 <= i < ks.len() implies placement_ok(ks.subrange(0, i), #[trigger] ks[i]) by {
            if i < ks.len() - 1 { assert(pre.subrange(0, i) =~= ks.subrange(0, i)); assert(pre[i] == ks[i]); }
            else { assert(ks.subrange(0, i) =~= pre); }
        }
    }
}
// C05: loading (all steps + finalize) succeeds iff the sequence is well bracketed
pub proof fn accepted_iff_well_bracketed(ks: Seq<Kind>)
    ensures accepted(ks) <==> well_bracketed(ks),
{
    if well_bracketed(ks) { arun_tracks_depth(ks); }
    if accepted(ks) { arun_some_implies_placement(ks); arun_tracks_depth(ks); }
}
// the concrete step refines the abstract one (state projection), so the lemma applies to the real loader
pub proof fn step_refines(l: LoaderV, inst: dr::Instruction)
    requires l.block is Some ==> l.function is Some,
    ensures ({
        let (l2, out) = step_spec(l, inst);
        let a = astep((l.function is Some, l.block is Some), kind_of(inst.class.opcode));
        &&& (out is Continue <==> a is Some)
        &&& (a matches Some(s2) ==> s2 == (l2.function is Some, l2.block is Some))
        &&& (out is Err ==> l2 == l)
    }),
{}
"""


C01_LEMMAS = r"""
// ---- C01: nothing dropped, duplicated or invented; order inside every section preserved -----------
use vstd::multiset::Multiset;
// multiset of all instructions held by a loader state (module sections, finished functions, open function, open block)
pub open spec fn ms_opt(o: Option<dr::Instruction>) -> Multiset<dr::Instruction> {
    match o { Some(i) => Multiset::singleton(i), None => Multiset::empty() }
}
pub open spec fn ms_block(b: dr::BlockV) -> Multiset<dr::Instruction> { ms_opt(b.label).add(b.instructions.to_multiset()) }
pub open spec fn ms_blocks(bs: Seq<dr::BlockV>) -> Multiset<dr::Instruction>
    decreases bs.len(),
{
    if bs.len() == 0 { Multiset::empty() } else { ms_blocks(bs.drop_last()).add(ms_block(bs.last())) }
}
pub open spec fn ms_function(f: dr::FunctionV) -> Multiset<dr::Instruction> {
    ms_opt(f.def).add(f.parameters.to_multiset()).add(ms_blocks(f.blocks)).add(ms_opt(f.end))
}
pub open spec fn ms_functions(fs: Seq<dr::FunctionV>) -> Multiset<dr::Instruction>
    decreases fs.len(),
{
    if fs.len() == 0 { Multiset::empty() } else { ms_functions(fs.drop_last()).add(ms_function(fs.last())) }
}
pub open spec fn ms_module(m: dr::ModuleV) -> Multiset<dr::Instruction> {
    m.capabilities.to_multiset().add(m.extensions.to_multiset()).add(m.ext_inst_imports.to_multiset()).add(ms_opt(m.memory_model))
        .add(m.entry_points.to_multiset()).add(m.execution_modes.to_multiset()).add(m.debug_string_source.to_multiset())
        .add(m.debug_names.to_multiset()).add(m.debug_module_processed.to_multiset()).add(m.annotations.to_multiset())
        .add(m.types_global_values.to_multiset()).add(ms_functions(m.functions))
}
pub open spec fn ms_loader(l: LoaderV) -> Multiset<dr::Instruction> {
    ms_module(l.module)
        .add(match l.function { Some(f) => ms_function(f), None => Multiset::empty() })
        .add(match l.block { Some(b) => ms_block(b), None => Multiset::empty() })
}
pub proof fn ms_push(s: Seq<dr::Instruction>, i: dr::Instruction)
    ensures s.push(i).to_multiset() =~= s.to_multiset().insert(i),
{ s.to_multiset_ensures(); }
pub proof fn ms_blocks_push(bs: Seq<dr::BlockV>, b: dr::BlockV)
    ensures ms_blocks(bs.push(b)) =~= ms_blocks(bs).add(ms_block(b)),
{ assert(bs.push(b).drop_last() =~= bs); }
pub proof fn ms_functions_push(fs: Seq<dr::FunctionV>, f: dr::FunctionV)
    ensures ms_functions(fs.push(f)) =~= ms_functions(fs).add(ms_function(f)),
{ assert(fs.push(f).drop_last() =~= fs); }
// one accepted step adds exactly the consumed instruction to the loader's holdings (a second OpMemoryModel
// would replace the first: excluded, as in the statement of C01); one lemma per instruction kind
pub proof fn step_adds_Capability(l: LoaderV, inst: dr::Instruction)
    requires wf_v(l), step_spec(l, inst).1 is Continue, kind_of(inst.class.opcode) is Capability,
        kind_of(inst.class.opcode) is MemoryModel ==> l.module.memory_model is None,
    ensures ms_loader(step_spec(l, inst).0) =~= ms_loader(l).insert(inst),
{
    let l2 = step_spec(l, inst).0;
    let m = l.module;
    ms_push(m.capabilities, inst); ms_push(m.extensions, inst); ms_push(m.ext_inst_imports, inst);
    ms_push(m.entry_points, inst); ms_push(m.execution_modes, inst); ms_push(m.debug_string_source, inst);
    ms_push(m.debug_names, inst); ms_push(m.debug_module_processed, inst); ms_push(m.annotations, inst);
    ms_push(m.types_global_values, inst);
    if l.block is Some { ms_push((l.block->0).instructions, inst); }
    if l.function is Some {
        ms_push((l.function->0).parameters, inst);
        if l.block is Some { ms_blocks_push((l.function->0).blocks, push_block(l, inst).block->0); }
        ms_functions_push(m.functions, dr::FunctionV { end: Some(inst), ..l.function->0 });
    }
    Seq::<dr::Instruction>::empty().to_multiset_ensures();
    assert(Seq::<dr::Instruction>::empty().to_multiset() =~= Multiset::empty());
    assert(ms_blocks(Seq::<dr::BlockV>::empty()) =~= Multiset::empty());
}
pub proof fn step_adds_Extension(l: LoaderV, inst: dr::Instruction)
    requires wf_v(l), step_spec(l, inst).1 is Continue, kind_of(inst.class.opcode) is Extension,
        kind_of(inst.class.opcode) is MemoryModel ==> l.module.memory_model is None,
    ensures ms_loader(step_spec(l, inst).0) =~= ms_loader(l).insert(inst),
{
    let l2 = step_spec(l, inst).0;
    let m = l.module;
    ms_push(m.capabilities, inst); ms_push(m.extensions, inst); ms_push(m.ext_inst_imports, inst);
    ms_push(m.entry_points, inst); ms_push(m.execution_modes, inst); ms_push(m.debug_string_source, inst);
    ms_push(m.debug_names, inst); ms_push(m.debug_module_processed, inst); ms_push(m.annotations, inst);
    ms_push(m.types_global_values, inst);
    if l.block is Some { ms_push((l.block->0).instructions, inst); }
    if l.function is Some {
        ms_push((l.function->0).parameters, inst);
        if l.block is Some { ms_blocks_push((l.function->0).blocks, push_block(l, inst).block->0); }
        ms_functions_push(m.functions, dr::FunctionV { end: Some(inst), ..l.function->0 });
    }
    Seq::<dr::Instruction>::empty().to_multiset_ensures();
    assert(Seq::<dr::Instruction>::empty().to_multiset() =~= Multiset::empty());
    assert(ms_blocks(Seq::<dr::BlockV>::empty()) =~= Multiset::empty());
}
pub proof fn step_adds_ExtInstImport(l: LoaderV, inst: dr::Instruction)
    requires wf_v(l), step_spec(l, inst).1 is Continue, kind_of(inst.class.opcode) is ExtInstImport,
        kind_of(inst.class.opcode) is MemoryModel ==> l.module.memory_model is None,
    ensures ms_loader(step_spec(l, inst).0) =~= ms_loader(l).insert(inst),
{
    let l2 = step_spec(l, inst).0;
    let m = l.module;
    ms_push(m.capabilities, inst); ms_push(m.extensions, inst); ms_push(m.ext_inst_imports, inst);
    ms_push(m.entry_points, inst); ms_push(m.execution_modes, inst); ms_push(m.debug_string_source, inst);
    ms_push(m.debug_names, inst); ms_push(m.debug_module_processed, inst); ms_push(m.annotations, inst);
    ms_push(m.types_global_values, inst);
    if l.block is Some { ms_push((l.block->0).instructions, inst); }
    if l.function is Some {
        ms_push((l.function->0).parameters, inst);
        if l.block is Some { ms_blocks_push((l.function->0).blocks, push_block(l, inst).block->0); }
        ms_functions_push(m.functions, dr::FunctionV { end: Some(inst), ..l.function->0 });
    }
    Seq::<dr::Instruction>::empty().to_multiset_ensures();
    assert(Seq::<dr::Instruction>::empty().to_multiset() =~= Multiset::empty());
    assert(ms_blocks(Seq::<dr::BlockV>::empty()) =~= Multiset::empty());
}
pub proof fn step_adds_MemoryModel(l: LoaderV, inst: dr::Instruction)
    requires wf_v(l), step_spec(l, inst).1 is Continue, kind_of(inst.class.opcode) is MemoryModel,
        kind_of(inst.class.opcode) is MemoryModel ==> l.module.memory_model is None,
    ensures ms_loader(step_spec(l, inst).0) =~= ms_loader(l).insert(inst),
{
    let l2 = step_spec(l, inst).0;
    let m = l.module;
    ms_push(m.capabilities, inst); ms_push(m.extensions, inst); ms_push(m.ext_inst_imports, inst);
    ms_push(m.entry_points, inst); ms_push(m.execution_modes, inst); ms_push(m.debug_string_source, inst);
    ms_push(m.debug_names, inst); ms_push(m.debug_module_processed, inst); ms_push(m.annotations, inst);
    ms_push(m.types_global_values, inst);
    if l.block is Some { ms_push((l.block->0).instructions, inst); }
    if l.function is Some {
        ms_push((l.function->0).parameters, inst);
        if l.block is Some { ms_blocks_push((l.function->0).blocks, push_block(l, inst).block->0); }
        ms_functions_push(m.functions, dr::FunctionV { end: Some(inst), ..l.function->0 });
    }
    Seq::<dr::Instruction>::empty().to_multiset_ensures();
    assert(Seq::<dr::Instruction>::empty().to_multiset() =~= Multiset::empty());
    assert(ms_blocks(Seq::<dr::BlockV>::empty()) =~= Multiset::empty());
}
pub proof fn step_adds_EntryPoint(l: LoaderV, inst: dr::Instruction)
    requires wf_v(l), step_spec(l, inst).1 is Continue, kind_of(inst.class.opcode) is EntryPoint,
        kind_of(inst.class.opcode) is MemoryModel ==> l.module.memory_model is None,
    ensures ms_loader(step_spec(l, inst).0) =~= ms_loader(l).insert(inst),
{
    let l2 = step_spec(l, inst).0;
    let m = l.module;
    ms_push(m.capabilities, inst); ms_push(m.extensions, inst); ms_push(m.ext_inst_imports, inst);
    ms_push(m.entry_points, inst); ms_push(m.execution_modes, inst); ms_push(m.debug_string_source, inst);
    ms_push(m.debug_names, inst); ms_push(m.debug_module_processed, inst); ms_push(m.annotations, inst);
    ms_push(m.types_global_values, inst);
    if l.block is Some { ms_push((l.block->0).instructions, inst); }
    if l.function is Some {
        ms_push((l.function->0).parameters, inst);
        if l.block is Some { ms_blocks_push((l.function->0).blocks, push_block(l, inst).block->0); }
        ms_functions_push(m.functions, dr::FunctionV { end: Some(inst), ..l.function->0 });
    }
    Seq::<dr::Instruction>::empty().to_multiset_ensures();
    assert(Seq::<dr::Instruction>::empty().to_multiset() =~= Multiset::empty());
    assert(ms_blocks(Seq::<dr::BlockV>::empty()) =~= Multiset::empty());
}
pub proof fn step_adds_ExecutionMode(l: LoaderV, inst: dr::Instruction)
    requires wf_v(l), step_spec(l, inst).1 is Continue, kind_of(inst.class.opcode) is ExecutionMode,
        kind_of(inst.class.opcode) is MemoryModel ==> l.module.memory_model is None,
    ensures ms_loader(step_spec(l, inst).0) =~= ms_loader(l).insert(inst),
{
    let l2 = step_spec(l, inst).0;
    let m = l.module;
    ms_push(m.capabilities, inst); ms_push(m.extensions, inst); ms_push(m.ext_inst_imports, inst);
    ms_push(m.entry_points, inst); ms_push(m.execution_modes, inst); ms_push(m.debug_string_source, inst);
    ms_push(m.debug_names, inst); ms_push(m.debug_module_processed, inst); ms_push(m.annotations, inst);
    ms_push(m.types_global_values, inst);
    if l.block is Some { ms_push((l.block->0).instructions, inst); }
    if l.function is Some {
        ms_push((l.function->0).parameters, inst);
        if l.block is Some { ms_blocks_push((l.function->0).blocks, push_block(l, inst).block->0); }
        ms_functions_push(m.functions, dr::FunctionV { end: Some(inst), ..l.function->0 });
    }
    Seq::<dr::Instruction>::empty().to_multiset_ensures();
    assert(Seq::<dr::Instruction>::empty().to_multiset() =~= Multiset::empty());
    assert(ms_blocks(Seq::<dr::BlockV>::empty()) =~= Multiset::empty());
}
pub proof fn step_adds_DebugStringSource(l: LoaderV, inst: dr::Instruction)
    requires wf_v(l), step_spec(l, inst).1 is Continue, kind_of(inst.class.opcode) is DebugStringSource,
        kind_of(inst.class.opcode) is MemoryModel ==> l.module.memory_model is None,
    ensures ms_loader(step_spec(l, inst).0) =~= ms_loader(l).insert(inst),
{
    let l2 = step_spec(l, inst).0;
    let m = l.module;
    ms_push(m.capabilities, inst); ms_push(m.extensions, inst); ms_push(m.ext_inst_imports, inst);
    ms_push(m.entry_points, inst); ms_push(m.execution_modes, inst); ms_push(m.debug_string_source, inst);
    ms_push(m.debug_names, inst); ms_push(m.debug_module_processed, inst); ms_push(m.annotations, inst);
    ms_push(m.types_global_values, inst);
    if l.block is Some { ms_push((l.block->0).instructions, inst); }
    if l.function is Some {
        ms_push((l.function->0).parameters, inst);
        if l.block is Some { ms_blocks_push((l.function->0).blocks, push_block(l, inst).block->0); }
        ms_functions_push(m.functions, dr::FunctionV { end: Some(inst), ..l.function->0 });
    }
    Seq::<dr::Instruction>::empty().to_multiset_ensures();
    assert(Seq::<dr::Instruction>::empty().to_multiset() =~= Multiset::empty());
    assert(ms_blocks(Seq::<dr::BlockV>::empty()) =~= Multiset::empty());
}
pub proof fn step_adds_DebugName(l: LoaderV, inst: dr::Instruction)
    requires wf_v(l), step_spec(l, inst).1 is Continue, kind_of(inst.class.opcode) is DebugName,
        kind_of(inst.class.opcode) is MemoryModel ==> l.module.memory_model is None,
    ensures ms_loader(step_spec(l, inst).0) =~= ms_loader(l).insert(inst),
{
    let l2 = step_spec(l, inst).0;
    let m = l.module;
    ms_push(m.capabilities, inst); ms_push(m.extensions, inst); ms_push(m.ext_inst_imports, inst);
    ms_push(m.entry_points, inst); ms_push(m.execution_modes, inst); ms_push(m.debug_string_source, inst);
    ms_push(m.debug_names, inst); ms_push(m.debug_module_processed, inst); ms_push(m.annotations, inst);
    ms_push(m.types_global_values, inst);
    if l.block is Some { ms_push((l.block->0).instructions, inst); }
    if l.function is Some {
        ms_push((l.function->0).parameters, inst);
        if l.block is Some { ms_blocks_push((l.function->0).blocks, push_block(l, inst).block->0); }
        ms_functions_push(m.functions, dr::FunctionV { end: Some(inst), ..l.function->0 });
    }
    Seq::<dr::Instruction>::empty().to_multiset_ensures();
    assert(Seq::<dr::Instruction>::empty().to_multiset() =~= Multiset::empty());
    assert(ms_blocks(Seq::<dr::BlockV>::empty()) =~= Multiset::empty());
}
pub proof fn step_adds_ModuleProcessed(l: LoaderV, inst: dr::Instruction)
    requires wf_v(l), step_spec(l, inst).1 is Continue, kind_of(inst.class.opcode) is ModuleProcessed,
        kind_of(inst.class.opcode) is MemoryModel ==> l.module.memory_model is None,
    ensures ms_loader(step_spec(l, inst).0) =~= ms_loader(l).insert(inst),
{
    let l2 = step_spec(l, inst).0;
    let m = l.module;
    ms_push(m.capabilities, inst); ms_push(m.extensions, inst); ms_push(m.ext_inst_imports, inst);
    ms_push(m.entry_points, inst); ms_push(m.execution_modes, inst); ms_push(m.debug_string_source, inst);
    ms_push(m.debug_names, inst); ms_push(m.debug_module_processed, inst); ms_push(m.annotations, inst);
    ms_push(m.types_global_values, inst);
    if l.block is Some { ms_push((l.block->0).instructions, inst); }
    if l.function is Some {
        ms_push((l.function->0).parameters, inst);
        if l.block is Some { ms_blocks_push((l.function->0).blocks, push_block(l, inst).block->0); }
        ms_functions_push(m.functions, dr::FunctionV { end: Some(inst), ..l.function->0 });
    }
    Seq::<dr::Instruction>::empty().to_multiset_ensures();
    assert(Seq::<dr::Instruction>::empty().to_multiset() =~= Multiset::empty());
    assert(ms_blocks(Seq::<dr::BlockV>::empty()) =~= Multiset::empty());
}
pub proof fn step_adds_LocDebug(l: LoaderV, inst: dr::Instruction)
    requires wf_v(l), step_spec(l, inst).1 is Continue, kind_of(inst.class.opcode) is LocDebug,
        kind_of(inst.class.opcode) is MemoryModel ==> l.module.memory_model is None,
    ensures ms_loader(step_spec(l, inst).0) =~= ms_loader(l).insert(inst),
{
    let l2 = step_spec(l, inst).0;
    let m = l.module;
    ms_push(m.capabilities, inst); ms_push(m.extensions, inst); ms_push(m.ext_inst_imports, inst);
    ms_push(m.entry_points, inst); ms_push(m.execution_modes, inst); ms_push(m.debug_string_source, inst);
    ms_push(m.debug_names, inst); ms_push(m.debug_module_processed, inst); ms_push(m.annotations, inst);
    ms_push(m.types_global_values, inst);
    if l.block is Some { ms_push((l.block->0).instructions, inst); }
    if l.function is Some {
        ms_push((l.function->0).parameters, inst);
        if l.block is Some { ms_blocks_push((l.function->0).blocks, push_block(l, inst).block->0); }
        ms_functions_push(m.functions, dr::FunctionV { end: Some(inst), ..l.function->0 });
    }
    Seq::<dr::Instruction>::empty().to_multiset_ensures();
    assert(Seq::<dr::Instruction>::empty().to_multiset() =~= Multiset::empty());
    assert(ms_blocks(Seq::<dr::BlockV>::empty()) =~= Multiset::empty());
}
pub proof fn step_adds_Annotation(l: LoaderV, inst: dr::Instruction)
    requires wf_v(l), step_spec(l, inst).1 is Continue, kind_of(inst.class.opcode) is Annotation,
        kind_of(inst.class.opcode) is MemoryModel ==> l.module.memory_model is None,
    ensures ms_loader(step_spec(l, inst).0) =~= ms_loader(l).insert(inst),
{
    let l2 = step_spec(l, inst).0;
    let m = l.module;
    ms_push(m.capabilities, inst); ms_push(m.extensions, inst); ms_push(m.ext_inst_imports, inst);
    ms_push(m.entry_points, inst); ms_push(m.execution_modes, inst); ms_push(m.debug_string_source, inst);
    ms_push(m.debug_names, inst); ms_push(m.debug_module_processed, inst); ms_push(m.annotations, inst);
    ms_push(m.types_global_values, inst);
    if l.block is Some { ms_push((l.block->0).instructions, inst); }
    if l.function is Some {
        ms_push((l.function->0).parameters, inst);
        if l.block is Some { ms_blocks_push((l.function->0).blocks, push_block(l, inst).block->0); }
        ms_functions_push(m.functions, dr::FunctionV { end: Some(inst), ..l.function->0 });
    }
    Seq::<dr::Instruction>::empty().to_multiset_ensures();
    assert(Seq::<dr::Instruction>::empty().to_multiset() =~= Multiset::empty());
    assert(ms_blocks(Seq::<dr::BlockV>::empty()) =~= Multiset::empty());
}
pub proof fn step_adds_TypeOrConst(l: LoaderV, inst: dr::Instruction)
    requires wf_v(l), step_spec(l, inst).1 is Continue, kind_of(inst.class.opcode) is TypeOrConst,
        kind_of(inst.class.opcode) is MemoryModel ==> l.module.memory_model is None,
    ensures ms_loader(step_spec(l, inst).0) =~= ms_loader(l).insert(inst),
{
    let l2 = step_spec(l, inst).0;
    let m = l.module;
    ms_push(m.capabilities, inst); ms_push(m.extensions, inst); ms_push(m.ext_inst_imports, inst);
    ms_push(m.entry_points, inst); ms_push(m.execution_modes, inst); ms_push(m.debug_string_source, inst);
    ms_push(m.debug_names, inst); ms_push(m.debug_module_processed, inst); ms_push(m.annotations, inst);
    ms_push(m.types_global_values, inst);
    if l.block is Some { ms_push((l.block->0).instructions, inst); }
    if l.function is Some {
        ms_push((l.function->0).parameters, inst);
        if l.block is Some { ms_blocks_push((l.function->0).blocks, push_block(l, inst).block->0); }
        ms_functions_push(m.functions, dr::FunctionV { end: Some(inst), ..l.function->0 });
    }
    Seq::<dr::Instruction>::empty().to_multiset_ensures();
    assert(Seq::<dr::Instruction>::empty().to_multiset() =~= Multiset::empty());
    assert(ms_blocks(Seq::<dr::BlockV>::empty()) =~= Multiset::empty());
}
pub proof fn step_adds_Variable(l: LoaderV, inst: dr::Instruction)
    requires wf_v(l), step_spec(l, inst).1 is Continue, kind_of(inst.class.opcode) is Variable,
        kind_of(inst.class.opcode) is MemoryModel ==> l.module.memory_model is None,
    ensures ms_loader(step_spec(l, inst).0) =~= ms_loader(l).insert(inst),
{
    let l2 = step_spec(l, inst).0;
    let m = l.module;
    ms_push(m.capabilities, inst); ms_push(m.extensions, inst); ms_push(m.ext_inst_imports, inst);
    ms_push(m.entry_points, inst); ms_push(m.execution_modes, inst); ms_push(m.debug_string_source, inst);
    ms_push(m.debug_names, inst); ms_push(m.debug_module_processed, inst); ms_push(m.annotations, inst);
    ms_push(m.types_global_values, inst);
    if l.block is Some { ms_push((l.block->0).instructions, inst); }
    if l.function is Some {
        ms_push((l.function->0).parameters, inst);
        if l.block is Some { ms_blocks_push((l.function->0).blocks, push_block(l, inst).block->0); }
        ms_functions_push(m.functions, dr::FunctionV { end: Some(inst), ..l.function->0 });
    }
    Seq::<dr::Instruction>::empty().to_multiset_ensures();
    assert(Seq::<dr::Instruction>::empty().to_multiset() =~= Multiset::empty());
    assert(ms_blocks(Seq::<dr::BlockV>::empty()) =~= Multiset::empty());
}
pub proof fn step_adds_Undef(l: LoaderV, inst: dr::Instruction)
    requires wf_v(l), step_spec(l, inst).1 is Continue, kind_of(inst.class.opcode) is Undef,
        kind_of(inst.class.opcode) is MemoryModel ==> l.module.memory_model is None,
    ensures ms_loader(step_spec(l, inst).0) =~= ms_loader(l).insert(inst),
{
    let l2 = step_spec(l, inst).0;
    let m = l.module;
    ms_push(m.capabilities, inst); ms_push(m.extensions, inst); ms_push(m.ext_inst_imports, inst);
    ms_push(m.entry_points, inst); ms_push(m.execution_modes, inst); ms_push(m.debug_string_source, inst);
    ms_push(m.debug_names, inst); ms_push(m.debug_module_processed, inst); ms_push(m.annotations, inst);
    ms_push(m.types_global_values, inst);
    if l.block is Some { ms_push((l.block->0).instructions, inst); }
    if l.function is Some {
        ms_push((l.function->0).parameters, inst);
        if l.block is Some { ms_blocks_push((l.function->0).blocks, push_block(l, inst).block->0); }
        ms_functions_push(m.functions, dr::FunctionV { end: Some(inst), ..l.function->0 });
    }
    Seq::<dr::Instruction>::empty().to_multiset_ensures();
    assert(Seq::<dr::Instruction>::empty().to_multiset() =~= Multiset::empty());
    assert(ms_blocks(Seq::<dr::BlockV>::empty()) =~= Multiset::empty());
}
pub proof fn step_adds_Function(l: LoaderV, inst: dr::Instruction)
    requires wf_v(l), step_spec(l, inst).1 is Continue, kind_of(inst.class.opcode) is Function,
        kind_of(inst.class.opcode) is MemoryModel ==> l.module.memory_model is None,
    ensures ms_loader(step_spec(l, inst).0) =~= ms_loader(l).insert(inst),
{
    let l2 = step_spec(l, inst).0;
    let m = l.module;
    ms_push(m.capabilities, inst); ms_push(m.extensions, inst); ms_push(m.ext_inst_imports, inst);
    ms_push(m.entry_points, inst); ms_push(m.execution_modes, inst); ms_push(m.debug_string_source, inst);
    ms_push(m.debug_names, inst); ms_push(m.debug_module_processed, inst); ms_push(m.annotations, inst);
    ms_push(m.types_global_values, inst);
    if l.block is Some { ms_push((l.block->0).instructions, inst); }
    if l.function is Some {
        ms_push((l.function->0).parameters, inst);
        if l.block is Some { ms_blocks_push((l.function->0).blocks, push_block(l, inst).block->0); }
        ms_functions_push(m.functions, dr::FunctionV { end: Some(inst), ..l.function->0 });
    }
    Seq::<dr::Instruction>::empty().to_multiset_ensures();
    assert(Seq::<dr::Instruction>::empty().to_multiset() =~= Multiset::empty());
    assert(ms_blocks(Seq::<dr::BlockV>::empty()) =~= Multiset::empty());
}
pub proof fn step_adds_FunctionEnd(l: LoaderV, inst: dr::Instruction)
    requires wf_v(l), step_spec(l, inst).1 is Continue, kind_of(inst.class.opcode) is FunctionEnd,
        kind_of(inst.class.opcode) is MemoryModel ==> l.module.memory_model is None,
    ensures ms_loader(step_spec(l, inst).0) =~= ms_loader(l).insert(inst),
{
    let l2 = step_spec(l, inst).0;
    let m = l.module;
    ms_push(m.capabilities, inst); ms_push(m.extensions, inst); ms_push(m.ext_inst_imports, inst);
    ms_push(m.entry_points, inst); ms_push(m.execution_modes, inst); ms_push(m.debug_string_source, inst);
    ms_push(m.debug_names, inst); ms_push(m.debug_module_processed, inst); ms_push(m.annotations, inst);
    ms_push(m.types_global_values, inst);
    if l.block is Some { ms_push((l.block->0).instructions, inst); }
    if l.function is Some {
        ms_push((l.function->0).parameters, inst);
        if l.block is Some { ms_blocks_push((l.function->0).blocks, push_block(l, inst).block->0); }
        ms_functions_push(m.functions, dr::FunctionV { end: Some(inst), ..l.function->0 });
    }
    Seq::<dr::Instruction>::empty().to_multiset_ensures();
    assert(Seq::<dr::Instruction>::empty().to_multiset() =~= Multiset::empty());
    assert(ms_blocks(Seq::<dr::BlockV>::empty()) =~= Multiset::empty());
}
pub proof fn step_adds_FunctionParameter(l: LoaderV, inst: dr::Instruction)
    requires wf_v(l), step_spec(l, inst).1 is Continue, kind_of(inst.class.opcode) is FunctionParameter,
        kind_of(inst.class.opcode) is MemoryModel ==> l.module.memory_model is None,
    ensures ms_loader(step_spec(l, inst).0) =~= ms_loader(l).insert(inst),
{
    let l2 = step_spec(l, inst).0;
    let m = l.module;
    ms_push(m.capabilities, inst); ms_push(m.extensions, inst); ms_push(m.ext_inst_imports, inst);
    ms_push(m.entry_points, inst); ms_push(m.execution_modes, inst); ms_push(m.debug_string_source, inst);
    ms_push(m.debug_names, inst); ms_push(m.debug_module_processed, inst); ms_push(m.annotations, inst);
    ms_push(m.types_global_values, inst);
    if l.block is Some { ms_push((l.block->0).instructions, inst); }
    if l.function is Some {
        ms_push((l.function->0).parameters, inst);
        if l.block is Some { ms_blocks_push((l.function->0).blocks, push_block(l, inst).block->0); }
        ms_functions_push(m.functions, dr::FunctionV { end: Some(inst), ..l.function->0 });
    }
    Seq::<dr::Instruction>::empty().to_multiset_ensures();
    assert(Seq::<dr::Instruction>::empty().to_multiset() =~= Multiset::empty());
    assert(ms_blocks(Seq::<dr::BlockV>::empty()) =~= Multiset::empty());
}
pub proof fn step_adds_Label(l: LoaderV, inst: dr::Instruction)
    requires wf_v(l), step_spec(l, inst).1 is Continue, kind_of(inst.class.opcode) is Label,
        kind_of(inst.class.opcode) is MemoryModel ==> l.module.memory_model is None,
    ensures ms_loader(step_spec(l, inst).0) =~= ms_loader(l).insert(inst),
{
    let l2 = step_spec(l, inst).0;
    let m = l.module;
    ms_push(m.capabilities, inst); ms_push(m.extensions, inst); ms_push(m.ext_inst_imports, inst);
    ms_push(m.entry_points, inst); ms_push(m.execution_modes, inst); ms_push(m.debug_string_source, inst);
    ms_push(m.debug_names, inst); ms_push(m.debug_module_processed, inst); ms_push(m.annotations, inst);
    ms_push(m.types_global_values, inst);
    if l.block is Some { ms_push((l.block->0).instructions, inst); }
    if l.function is Some {
        ms_push((l.function->0).parameters, inst);
        if l.block is Some { ms_blocks_push((l.function->0).blocks, push_block(l, inst).block->0); }
        ms_functions_push(m.functions, dr::FunctionV { end: Some(inst), ..l.function->0 });
    }
    Seq::<dr::Instruction>::empty().to_multiset_ensures();
    assert(Seq::<dr::Instruction>::empty().to_multiset() =~= Multiset::empty());
    assert(ms_blocks(Seq::<dr::BlockV>::empty()) =~= Multiset::empty());
}
pub proof fn step_adds_Terminator(l: LoaderV, inst: dr::Instruction)
    requires wf_v(l), step_spec(l, inst).1 is Continue, kind_of(inst.class.opcode) is Terminator,
        kind_of(inst.class.opcode) is MemoryModel ==> l.module.memory_model is None,
    ensures ms_loader(step_spec(l, inst).0) =~= ms_loader(l).insert(inst),
{
    let l2 = step_spec(l, inst).0;
    let m = l.module;
    ms_push(m.capabilities, inst); ms_push(m.extensions, inst); ms_push(m.ext_inst_imports, inst);
    ms_push(m.entry_points, inst); ms_push(m.execution_modes, inst); ms_push(m.debug_string_source, inst);
    ms_push(m.debug_names, inst); ms_push(m.debug_module_processed, inst); ms_push(m.annotations, inst);
    ms_push(m.types_global_values, inst);
    if l.block is Some { ms_push((l.block->0).instructions, inst); }
    if l.function is Some {
        ms_push((l.function->0).parameters, inst);
        if l.block is Some { ms_blocks_push((l.function->0).blocks, push_block(l, inst).block->0); }
        ms_functions_push(m.functions, dr::FunctionV { end: Some(inst), ..l.function->0 });
    }
    Seq::<dr::Instruction>::empty().to_multiset_ensures();
    assert(Seq::<dr::Instruction>::empty().to_multiset() =~= Multiset::empty());
    assert(ms_blocks(Seq::<dr::BlockV>::empty()) =~= Multiset::empty());
}
pub proof fn step_adds_Other(l: LoaderV, inst: dr::Instruction)
    requires wf_v(l), step_spec(l, inst).1 is Continue, kind_of(inst.class.opcode) is Other,
        kind_of(inst.class.opcode) is MemoryModel ==> l.module.memory_model is None,
    ensures ms_loader(step_spec(l, inst).0) =~= ms_loader(l).insert(inst),
{
    let l2 = step_spec(l, inst).0;
    let m = l.module;
    ms_push(m.capabilities, inst); ms_push(m.extensions, inst); ms_push(m.ext_inst_imports, inst);
    ms_push(m.entry_points, inst); ms_push(m.execution_modes, inst); ms_push(m.debug_string_source, inst);
    ms_push(m.debug_names, inst); ms_push(m.debug_module_processed, inst); ms_push(m.annotations, inst);
    ms_push(m.types_global_values, inst);
    if l.block is Some { ms_push((l.block->0).instructions, inst); }
    if l.function is Some {
        ms_push((l.function->0).parameters, inst);
        if l.block is Some { ms_blocks_push((l.function->0).blocks, push_block(l, inst).block->0); }
        ms_functions_push(m.functions, dr::FunctionV { end: Some(inst), ..l.function->0 });
    }
    Seq::<dr::Instruction>::empty().to_multiset_ensures();
    assert(Seq::<dr::Instruction>::empty().to_multiset() =~= Multiset::empty());
    assert(ms_blocks(Seq::<dr::BlockV>::empty()) =~= Multiset::empty());
}
pub proof fn step_adds_exactly_inst(l: LoaderV, inst: dr::Instruction)
    requires wf_v(l), step_spec(l, inst).1 is Continue,
        kind_of(inst.class.opcode) is MemoryModel ==> l.module.memory_model is None,
    ensures ms_loader(step_spec(l, inst).0) =~= ms_loader(l).insert(inst),
{
    match kind_of(inst.class.opcode) {
        Kind::Capability => step_adds_Capability(l, inst),
        Kind::Extension => step_adds_Extension(l, inst),
        Kind::ExtInstImport => step_adds_ExtInstImport(l, inst),
        Kind::MemoryModel => step_adds_MemoryModel(l, inst),
        Kind::EntryPoint => step_adds_EntryPoint(l, inst),
        Kind::ExecutionMode => step_adds_ExecutionMode(l, inst),
        Kind::DebugStringSource => step_adds_DebugStringSource(l, inst),
        Kind::DebugName => step_adds_DebugName(l, inst),
        Kind::ModuleProcessed => step_adds_ModuleProcessed(l, inst),
        Kind::LocDebug => step_adds_LocDebug(l, inst),
        Kind::Annotation => step_adds_Annotation(l, inst),
        Kind::TypeOrConst => step_adds_TypeOrConst(l, inst),
        Kind::Variable => step_adds_Variable(l, inst),
        Kind::Undef => step_adds_Undef(l, inst),
        Kind::Function => step_adds_Function(l, inst),
        Kind::FunctionEnd => step_adds_FunctionEnd(l, inst),
        Kind::FunctionParameter => step_adds_FunctionParameter(l, inst),
        Kind::Label => step_adds_Label(l, inst),
        Kind::Terminator => step_adds_Terminator(l, inst),
        Kind::Other => step_adds_Other(l, inst),
    }
}
// the order inside every module-level section is preserved: a step only ever appends at the end
pub open spec fn is_prefix(a: Seq<dr::Instruction>, b: Seq<dr::Instruction>) -> bool {
    a.len() <= b.len() && forall|i: int| 0 <= i < a.len() ==> #[trigger] b[i] == a[i]
}
pub proof fn step_appends(l: LoaderV, inst: dr::Instruction)
    requires wf_v(l),
    ensures ({ let m = l.module; let m2 = step_spec(l, inst).0.module;
        is_prefix(m.capabilities, m2.capabilities) && is_prefix(m.extensions, m2.extensions) && is_prefix(m.ext_inst_imports, m2.ext_inst_imports)
        && is_prefix(m.entry_points, m2.entry_points) && is_prefix(m.execution_modes, m2.execution_modes)
        && is_prefix(m.debug_string_source, m2.debug_string_source) && is_prefix(m.debug_names, m2.debug_names)
        && is_prefix(m.debug_module_processed, m2.debug_module_processed) && is_prefix(m.annotations, m2.annotations)
        && is_prefix(m.types_global_values, m2.types_global_values)
        && m.functions.len() <= m2.functions.len() && (forall|k: int| 0 <= k < m.functions.len() ==> #[trigger] m2.functions[k] == m.functions[k])
        && (l.block matches Some(b) ==> (step_spec(l, inst).0.block matches Some(b2) ==> is_prefix(b.instructions, b2.instructions))) }),
{}
"""


def build(tier="quick", must_fail=False):
    g = Gen(NAME if not must_fail else NAME + "_mustfail")
    src = Source.get(FILE)
    psrc = Source.get(PARSER)
    g.raw(HEADER)
    g.raw("verus! {")
    lib_spirv.emit(g, with_alias=True, from_u32=False)
    lib_dr.emit_grammar(g)
    # binary::Action (real enum, R3)
    act = Piece(psrc.find("enum", "Action"))
    act.sub(r"Box<dyn error::Error \+ Send \+ Sync>", "BoxedError", "R3", count=1)
    gb = Gen("tmp")
    gb.emit(act, name="binary::parser::Action", under_contract=False)
    g.raw((BINARY_MOD % {"ACTION": "\n".join(gb.lines)}))
    g.items.append(dict(gb.items[0], gen_start=0, gen_end=0))
    g.rewrites += gb.rewrites
    # dr + dr::loader
    osrc_mark = len(g.lines)
    lib_dr.emit_dr(g)
    # reopen dr to add the loader module: simplest is a sibling module path `crate::dr::loader`
    # -> emit loader inside `pub mod dr` by re-opening is not possible; so patch: remove the closing
    # line of mod dr and close it after the loader
    assert g.lines[-1].startswith("} // mod dr")
    g.lines.pop()
    g.raw("pub mod loader {")
    g.raw("use vstd::prelude::*;\nuse crate::binary;\nuse crate::dr;\nuse crate::grammar;\nuse crate::spirv;\n"
          "use crate::binary::{ParseAction, boxed_error};")
    g.emit(Piece(src.find("enum", "Error")), name="dr::loader::Error", under_contract=False)
    st = Piece(src.find("struct", "Loader"))
    st.sub(r"(\n\s*)(module|function|block):", r"\1pub \2:", "R15", count=3)
    g.emit(st, name="dr::loader::Loader", under_contract=False)
    g.raw(SPEC)
    g.raw(LOADER_WF)
    mac = Piece(src.find("macro", "if_ret_err"))
    mac.sub(r"Box::new\(Error::\$error\)", "boxed_error(Error::$error)", "R3", count=1)
    g.emit(mac, name="dr::loader::if_ret_err!", under_contract=False)

    def fn(name, contract, rname="r", edit=None, trait=None):
        f = src.find("fn", "Loader::" + name)
        p = Piece(f)
        if rname:
            p.name_result(rname)
        if edit:
            edit(p)
        p.add_contract(contract)
        g.contract_clauses += count_clauses(contract)
        g.emit(p, name="dr::loader::Loader::" + name)

    g.raw("impl Loader {")
    fn("new", "    ensures r.wf(), r.function is None, r.block is None, r.module.functions@.len() == 0, r.module.header is None,")
    fn("module", "    ensures r == self.module,")
    g.raw("}")
    g.raw("// `impl binary::Consumer for Loader`: the real fns as inherent methods (R20: Verus rejects\n"
          "// `requires` on trait impls; the trait itself is under contract in unit parser_protocol)")
    g.raw("impl Loader {")

    def pubfn(p):
        p.sub(r"^fn ", "pub fn ", "R20", count=1)

    def ci_edit(p):
        pubfn(p)
        # ghost: views of the two nested vectors after a push (blocks into the open function,
        # the finished function into the module)
        p.insert_at("ParseAction::Continue", """proof {
            let ofs = old(self).module.functions@; let nfs = self.module.functions@;
            if nfs.len() == ofs.len() + 1 {
                assert(nfs =~= ofs.push(nfs.last()));
                dr::functions_view_push(ofs, nfs.last());
            }
            if old(self).function is Some && self.function is Some {
                let ob = (old(self).function->0).blocks@; let nb = (self.function->0).blocks@;
                if nb.len() == ob.len() + 1 {
                    assert(nb =~= ob.push(nb.last()));
                    dr::blocks_view_push(ob, nb.last());
                }
            }
            if old(self).function is Some && self.function is None {
                assert(dr::function_view(nfs.last()).blocks =~= dr::function_view(old(self).function->0).blocks);
            }
            if old(self).function is None && self.function is Some {
                assert(dr::function_view(self.function->0).parameters =~= Seq::empty());
                assert(dr::function_view(self.function->0).blocks =~= Seq::empty());
            }
            if old(self).block is None && self.block is Some {
                assert(dr::block_view(self.block->0).instructions =~= Seq::empty());
            }
        }
        """, where="before", nth=1, tag="ghost")
        p.sub(r"Box::new\(Error::DetachedInstruction\(Some\(inst\)\)\)", "boxed_error(Error::DetachedInstruction(Some(inst)))",
              "R3", count=1)
    if must_fail:
        fn("finalize", "    requires old(self).wf(),\n    ensures false,", edit=pubfn)
    else:
        fn("initialize", "    ensures r is Continue, *final(self) == *old(self),", edit=pubfn)
        fn("finalize", """    requires old(self).wf(),
    ensures
        *final(self) == *old(self),
        // errors iff something is still open; the block check comes first
        old(self).block is Some ==> outcome_of(r) == Outcome::Err(Error::UnclosedBlock),
        (old(self).block is None && old(self).function is Some) ==> outcome_of(r) == Outcome::Err(Error::UnclosedFunction),
        (old(self).block is None && old(self).function is None) ==> r is Continue,
        !(r is Stop),""", edit=pubfn)
        fn("consume_header", """    ensures r is Continue, final(self).module.header == Some(header),
        final(self).view() == (LoaderV { module: dr::ModuleV { header: Some(header), ..old(self).view().module }, ..old(self).view() }),""", edit=pubfn)
        fn("consume_instruction", """    requires old(self).wf(),
    ensures
        final(self).wf(),
        // new state and outcome are exactly the automaton's (whole-state equality: full frame)
        final(self).view() == step_spec(old(self).view(), inst).0,
        outcome_of(r) == step_spec(old(self).view(), inst).1,
        !(r is Stop),""", edit=ci_edit)
    g.raw("}")
    if not must_fail:
        g.raw(LEMMAS)
        g.raw(C01_LEMMAS)
    g.raw("} // mod loader")
    g.raw("} // mod dr")
    g.raw("} // verus!")
    g.raw("fn main() {}")
    return g


def describe():
    return {
        "unit": NAME,
        "functions_under_contract": ["dr::loader::Loader::" + n for n in
                                     ("new", "module", "initialize", "finalize", "consume_header", "consume_instruction")]
                                    + ["dr::Module::new", "dr::Function::new", "dr::Block::new", "dr::Instruction::new"],
        "assumptions": lib_dr.ASSUMED + [
            "R3: Box<dyn Error + Send + Sync> modelled as an opaque box with a ghost payload; Box::new never fails",
            "R20: the bodies of `impl Consumer for Loader` are verified as inherent methods",
            "derived Default for Loader is not under contract (not used by load_bytes/load_words)",
        ],
    }


# ---------------------------------------------------------------------------------------------
# witness search: every sequence of <= 3 instructions over one representative per kind, loaded
# with the REAL load_words (vreplay load-batch) and compared with C05's automaton in Python
# ---------------------------------------------------------------------------------------------
REPR = {
    "Capability": "00020011 1", "Extension": "0002000a 61", "ExtInstImport": "0003000b 1 61",
    "MemoryModel": "0003000e 0 1", "EntryPoint": "0004000f 0 1 61", "ExecutionMode": "00040010 1 0 1",
    "ExecutionModeId": "0006014b 1 26 2 3 4",
    "String": "00030007 1 61", "Name": "00030005 1 61", "ModuleProcessed": "0002014a 61",
    "Line": "00040008 1 1 1", "Decorate": "00030047 1 0", "DecorateId": "0004014c 1 1 2", "TypeVoid": "00020013 1",
    "TypeCoopMatKHR": "00071168 1 2 3 4 5 6", "ConstantTrue": "00030029 1 2",
    "Variable": "0004003b 1 2 7", "Undef": "00030001 1 2", "Function": "00050036 1 2 0 3", "FunctionEnd": "00010038",
    "FunctionParameter": "00030037 1 2", "Label": "000200f8 1", "Return": "000100fd", "Branch": "000200f9 1",
    "Kill": "000100fc", "Nop": "00010000",
}
SECTION = {"Capability": 0, "Extension": 1, "ExtInstImport": 2, "MemoryModel": 3, "EntryPoint": 4, "ExecutionMode": 5, "ExecutionModeId": 5,
           "String": 6, "Name": 7, "ModuleProcessed": 8, "Decorate": 9, "DecorateId": 9, "TypeVoid": 10,
           "TypeCoopMatKHR": 10, "ConstantTrue": 10}


def _model(seq):
    sec = [0] * 11
    fn, blk = None, None
    fns = []
    for k in seq:
        if k in SECTION:
            if k == "MemoryModel":
                sec[3] = 1
            else:
                sec[SECTION[k]] += 1
        elif k == "Line":
            if blk is not None:
                blk[1] += 1
            else:
                sec[10] += 1
        elif k in ("Variable", "Undef") and fn is None:
            sec[10] += 1
        elif k == "Function":
            if fn is not None:
                return "Err NestedFunction"
            fn = {"p": 0, "b": []}
        elif k == "FunctionEnd":
            if fn is None:
                return "Err MismatchedFunctionEnd"
            if blk is not None:
                return "Err UnclosedBlock"
            fns.append(fn)
            fn = None
        elif k == "FunctionParameter":
            if fn is None:
                return "Err DetachedFunctionParameter"
            fn["p"] += 1
        elif k == "Label":
            if fn is None:
                return "Err DetachedBlock"
            if blk is not None:
                return "Err NestedBlock"
            blk = [1, 0]
        elif k in ("Return", "Branch", "Kill"):
            if blk is None:
                return "Err MismatchedTerminator"
            blk[1] += 1
            fn["b"].append(blk)
            blk = None
        else:
            if blk is None:
                return "Err DetachedInstruction"
            blk[1] += 1
    if blk is not None:
        return "Err UnclosedBlock"
    if fn is not None:
        return "Err UnclosedFunction"
    return "Ok %s fns=%s" % (" ".join(str(x) for x in sec), ";".join(
        "11p%db[%s]" % (f["p"], ",".join("%d:%d" % (b[0], b[1]) for b in f["b"])) for f in fns))


def witness(failure, ctx):
    import itertools
    kinds = list(REPR.keys())
    seqs = [()]
    for n in (1, 2, 3):
        seqs += list(itertools.product(kinds, repeat=n))
    # bracket structure in depth: every sequence of length 4..6 over the structural kinds
    core = ["Function", "FunctionEnd", "Label", "Return", "Nop"]
    for n in (4, 5):
        seqs += list(itertools.product(core + ["Variable", "TypeVoid"], repeat=n)) if n == 4 else list(itertools.product(core, repeat=n))
    seqs += list(itertools.product(["Function", "FunctionEnd", "Label", "Return"], repeat=6))
    seqs += list(itertools.product(["Function", "FunctionEnd", "Label", "Return", "FunctionParameter", "Variable", "Line"], repeat=5))
    # plus longer well-formed shapes
    seqs += [("Function", "FunctionParameter", "Label", "Nop", "Line", "Return", "Label", "Variable", "Branch", "FunctionEnd"),
             ("TypeVoid", "Function", "Label", "Return", "FunctionEnd", "Function", "Label", "Kill", "FunctionEnd")]
    inp = "\n".join(" ".join(REPR[k] for k in s) for s in seqs) + "\n"
    p, err = ctx["vreplay"](["load-batch"], stdin=inp)
    if p is None or p.returncode != 0:
        return {"found": False, "error": err or p.stderr[-300:]}
    outs = p.stdout.splitlines()
    for s, o in zip(seqs, outs):
        exp = _model(s)
        ok = (o == exp) if exp.startswith("Ok") else (o.startswith("Err") and exp.split()[1] in o)
        if not ok:
            return {"found": True, "exhaustive": False, "input": {"instructions": list(s), "words": " ".join(REPR[k] for k in s)},
                    "observed": o, "expected": exp, "how": "vreplay load-batch: real load_words vs C05 automaton, %d sequences" % len(seqs)}
    return {"found": False, "exhaustive": False, "how": "%d instruction sequences (all of length <= 3 over %d representatives, all of length 4..6 over the structural kinds) agreed" % (len(seqs), len(kinds))}
