"""unit `builder_sections` — C06: every instruction-emitting Builder method places its instruction
where the loader files that opcode (so a built module reloads into the same sections, functions
and blocks), one obligation per method so a failure names the method.

* where the Builder puts it: read off the text of each real method on every run
  (`self.module.<section>.push(..)` / `= Some(..)`, `insert_into_block`, `end_block`/`insert_end_block`);
* where the loader puts it: `kind_of(opcode)`, the dispatch specification the real
  Loader::consume_instruction is proved against in unit `loader` (same spec text).
"""
import re
from .common import Source, Gen, Lost, HEADER
from . import lib_spirv, lib_dr, loader as loader_unit

NAME = "builder_sections"
FILES = ["rspirv/dr/build/mod.rs", "rspirv/dr/build/autogen_norm_insts.rs", "rspirv/dr/build/autogen_type.rs",
         "rspirv/dr/build/autogen_constant.rs", "rspirv/dr/build/autogen_annotation.rs", "rspirv/dr/build/autogen_debug.rs",
         "rspirv/dr/build/autogen_terminator.rs"]
SECTION_KIND = {"capabilities": "Kind::Capability", "extensions": "Kind::Extension", "ext_inst_imports": "Kind::ExtInstImport",
                "memory_model": "Kind::MemoryModel", "entry_points": "Kind::EntryPoint", "execution_modes": "Kind::ExecutionMode",
                "debug_string_source": "Kind::DebugStringSource", "debug_names": "Kind::DebugName",
                "debug_module_processed": "Kind::ModuleProcessed", "annotations": "Kind::Annotation",
                "types_global_values": "Kind::TypeOrConst"}
SPECIAL = {"begin_function": "k is Function", "end_function": "k is FunctionEnd", "function_parameter": "k is FunctionParameter",
           "begin_block": "k is Label", "line": "k is LocDebug", "no_line": "k is LocDebug", "variable": "k is Variable", "undef": "k is Undef"}
SKIP = {"select_function_by_name", "find_return_block_indices", "begin_block_no_label"}


def methods():
    """[(file, method, opcode, expected predicate over k = kind_of(op), description)]"""
    out = []
    for fpath in FILES:
        src = Source.get(fpath)
        for f in src.find_all("fn"):
            if f.parent is None or f.parent.kind != "impl" or f.parent.impl_of != "Builder" or f.name in SKIP:
                continue
            t = f.core_text
            ops = set(re.findall(r"spirv::Op::(\w+)", t))
            if len(ops) != 1:
                continue
            op = ops.pop()
            if f.name in SPECIAL:
                out.append((fpath, f.name, op, SPECIAL[f.name], "hand-written structural method"))
                continue
            m = re.search(r"self\.module\s*\.(\w+)\s*\.push", t) or re.search(r"self\.module\.(\w+) = Some", t)
            if "end_block(" in t:
                out.append((fpath, f.name, op, "k is Terminator", "ends the current block"))
            elif "insert_into_block" in t and not m:
                out.append((fpath, f.name, op, "(k is Other || k is Variable || k is Undef || k is LocDebug)", "inserted into the selected block"))
            elif m and m.group(1) in SECTION_KIND:
                out.append((fpath, f.name, op, "k == %s" % SECTION_KIND[m.group(1)], "pushed to module.%s" % m.group(1)))
            else:
                raise Lost("builder method %s (%s): cannot tell where it puts Op%s" % (f.name, fpath, op))
    if len(out) < 1000:
        raise Lost("only %d builder methods classified" % len(out))
    return out


def shards(tier):
    return ["norm", "rest"]


def build(tier="quick", must_fail=False, shard=None):
    g = Gen(NAME if not must_fail else NAME + "_mustfail")
    g.raw(HEADER)
    g.raw("verus! {")
    lib_spirv.emit(g, enums=["Op"], masks=[], with_alias=True, from_u32=False)
    g.raw("pub mod grammar { pub mod reflect {\nuse vstd::prelude::*;\nuse crate::spirv;\nuse crate::spirv::Op;")
    from . import reflect as reflect_unit
    from .common import spec_set_fn
    sets = reflect_unit.class_sets()
    for name in ("class_type", "class_constant", "class_annotation", "spec_loc_debug", "spec_branch", "spec_return", "spec_abort"):
        g.raw(spec_set_fn(name, "Op", sets[name]))
    g.raw("pub open spec fn spec_block_terminator(op: Op) -> bool { spec_branch(op) || spec_return(op) || spec_abort(op) }")
    g.raw("} }")
    # the loader's dispatch specification (same text as unit loader)
    spec = loader_unit.SPEC
    a = spec.index("pub enum Kind {")
    b = spec.index("pub enum Outcome")
    g.raw("pub mod sections {\nuse vstd::prelude::*;\nuse crate::spirv;\nuse crate::grammar;")
    g.raw(spec[a:b])
    ms = methods()
    g.n_methods = len(ms)
    if must_fail:
        g.raw("pub proof fn control() ensures kind_of(spirv::Op::Nop) is Terminator { }")
    else:
        for fpath, name, op, pred, desc in ms:
            is_norm = fpath.endswith("autogen_norm_insts.rs")
            if shard == "norm" and not is_norm or shard == "rest" and is_norm:
                continue
            g.raw("// Builder::%s (%s): Op%s is %s\npub proof fn builder_%s_%s() ensures ({ let k = kind_of(spirv::Op::%s); %s }) {}"
                  % (name, fpath.split("/")[-1], op, desc, fpath.split("/")[-1].replace(".rs", "").replace("autogen_", ""), name, op, pred))
    g.raw("} // mod sections")
    g.raw("} // verus!")
    g.raw("fn main() {}")
    return g


def describe():
    return {"unit": NAME, "functions_under_contract": [],
            "assumptions": ["where each Builder method puts its instruction is read off its real text on every run (push / insert_into_block / end_block)",
                            "kind_of is the dispatch specification the real loader is proved against in unit loader"]}


def witness(failure, ctx):
    """a built function whose block contains the method's instruction followed by a return: replayed on the REAL Builder
    and re-loaded with the REAL loader"""
    item = failure.get("item") or ""
    ops = {"lifetime_start": "lifetime", "insert_lifetime_start": "insert_lifetime", "lifetime_stop": "lifetime_stop",
           "insert_lifetime_stop": "insert_lifetime_stop", "demote_to_helper_invocation": "demote",
           "insert_demote_to_helper_invocation": "insert_demote"}
    m = re.match(r"lemma::builder_terminator_(\w+)$", item)
    if m and m.group(1) in ops:
        script = ["bf", "bb", ops[m.group(1)], "ret", "assemble_load"]
        p, err = ctx["vreplay"](["builder-script"] + script)
        if p is None:
            return {"found": False, "error": err}
        lines = p.stdout.splitlines()
        bad = any("MismatchedTerminator" in l for l in lines) or any("assemble_load" in l and "Err" in l for l in lines)
        return {"found": bad, "exhaustive": False, "input": script, "observed": lines,
                "how": "vreplay builder-script: the method closes the block (the following ret fails / the assembled module does not reload)"}
    m = re.match(r"lemma::builder_\w+?_(\w+)$", item)
    if m:
        from . import method_sweep
        allm = {x["name"] for x in method_sweep.methods()}
        cand = [n for n in allm if item.endswith("_" + n)]
        if cand:
            return method_sweep.witness_for([max(cand, key=len)], ctx)
    return {"found": False, "exhaustive": False, "how": "the obligation compares the method's text with the loader specification"}
