"""unit `builder_ops` — C06: every generated instruction-emitting Builder method builds its operand
vector from its parameters in grammar order, with the operand variants and optional/variadic
structure the grammar row of its opcode dictates (one obligation per method, 1096 methods).

* method side: the operand constructions of each real method, lifted in program order on every run
  (units/lift_builder.py): vec![..] literal -> required, `if let Some(v) = p { push }` -> optional,
  `extend(p.into_iter().map(Ctor))` / `for v in p { push; push }` -> variadic, `extend(p)` -> the
  extra parameters of a parameterised enumerant/mask;
* grammar side: the real row text of the opcode (`row_<i>()`, as in unit table_core), reduced by the
  spec function `shape_of` to (quantifier, operand variant) pairs and evaluated by the Verus interpreter;
* parameters must be used in signature order (position k of the shape is parameter k).
"""
import re
from .common import Source, Gen, Lost, HEADER, SPIRV, enum_variants
from . import tables
from .lift_builder import lift_all, variant_of_kind, PARAMETERISED

NAME = "builder_ops"
QID = {"One": 0, "ZeroOrOne": 1, "ZeroOrMore": 2, "Extra": 3}


def split_clauses(ens):
    """top-level comma split of an ensures list"""
    out, d, cur = [], 0, ""
    for ch in ens:
        if ch in "([{":
            d += 1
        if ch in ")]}":
            d -= 1
        if ch == "," and d == 0:
            out.append(cur)
            cur = ""
        else:
            cur += ch
    if cur.strip():
        out.append(cur)
    return out


def shards(tier):
    return ["a", "b", "c", "d"]


def build(tier="quick", must_fail=False, shard=None):
    g = Gen(NAME if not must_fail else NAME + "_mustfail")
    rows, st, body = tables.parse_rows("core")
    methods = lift_all()
    by_op = {}
    for m in methods:
        by_op.setdefault(m["op"], []).append(m)
    g.n_methods = len(methods)
    kinds = [n for n, _ in enum_variants(Source.get(tables.TABLES["core"]["file"]).find("enum", "OperandKind"))]
    tags = {}

    def tag(v):
        if v not in tags:
            tags[v] = len(tags)
        return tags[v]
    g.raw(HEADER)
    g.raw("verus! {")
    tables.emit_spirv_for_tables(g, ["Capability", "Op"])
    g.raw("pub mod grammar {\nuse vstd::prelude::*;\nuse crate::spirv;")
    tables.emit_grammar_types(g, True)
    g.raw(tables.SPEC_TYPES % {"OPTY": "spirv::Op", "MACRO": tables.MACRO_INST})
    g.raw("pub open spec fn kind_tag(k: OperandKind) -> int {\n    match k {\n%s\n    }\n}" % "\n".join(
        "        OperandKind::%s => %d," % (k, tag(variant_of_kind(k))) for k in kinds))
    g.raw("pub open spec fn quant_id(q: OperandQuantifier) -> int { match q { OperandQuantifier::One => 0, "
          "OperandQuantifier::ZeroOrOne => 1, OperandQuantifier::ZeroOrMore => 2 } }")
    g.raw("// (quantifier, operand variant) of every logical operand except the result type / result id\n"
          "pub open spec fn shape_of(o: Seq<LogicalOperand>, i: int) -> Seq<(int, int)> decreases o.len() - i {\n"
          "    if i < 0 || i >= o.len() { Seq::empty() }\n"
          "    else if o[i].kind == OperandKind::IdResultType || o[i].kind == OperandKind::IdResult { shape_of(o, i + 1) }\n"
          "    else { seq![(quant_id(o[i].quantifier), kind_tag(o[i].kind))] + shape_of(o, i + 1) }\n}")
    g.raw("pub open spec fn has_parameterised(o: Seq<LogicalOperand>, i: int) -> bool decreases o.len() - i {\n"
          "    if i < 0 || i >= o.len() { false } else { (%s) || has_parameterised(o, i + 1) }\n}"
          % " || ".join("o[i].kind == OperandKind::%s" % k for k in sorted(PARAMETERISED)))
    g.raw("pub open spec fn has_kind(o: Seq<LogicalOperand>, k: OperandKind, i: int) -> bool decreases o.len() - i {\n"
          "    if i < 0 || i >= o.len() { false } else { o[i].kind == k || has_kind(o, k, i + 1) }\n}")
    interned = {}

    def intern(mm):
        s_ = mm.group(0)
        if s_ not in interned:
            interned[s_] = len(interned)
        return "%dint" % interned[s_]
    row_texts = tables.split_top(re.sub(r'"(?:[^"\\]|\\.)*"', intern, body))
    CH = 100
    sel = {"a": (0, 200), "b": (200, 400), "c": (400, 600), "d": (600, 10000)}.get(shard, (0, 10000))
    n_emitted = 0
    open_mod = None
    for i, (rt, r) in enumerate(zip(row_texts, rows)):
        if not (sel[0] <= i < sel[1]) or r["name"] not in by_op:
            continue
        if must_fail and n_emitted >= 1:
            break
        k = i // CH
        if open_mod != k:
            if open_mod is not None:
                g.raw("} // mod")
            g.raw("pub mod ops_%d {\nuse vstd::prelude::*;\nuse crate::spirv;\nuse super::*;" % k)
            open_mod = k
        g.raw("// row %d of static INSTRUCTION_TABLE (real text)\npub closed spec fn row_%d() -> GInst {\n    %s\n}" % (i, i, rt))
        for m in by_op[r["name"]]:
            n_emitted += 1
            shape = [(QID[q], tag(v)) for q, v, p in m["seq"] if q != "Extra"]
            extras = [p for q, v, p in m["seq"] if q == "Extra"]
            used = [p for q, v, p in m["seq"]]
            sig = [p for p in m["params"] if p not in ("insert_point", "result_type", "result_id") or p in used]
            sig = [p for p in sig if p in used]
            order_ok = (used == sig)
            # extras: at most one, last, and only for rows with a parameterised kind
            extra_clause = ""
            if extras:
                extra_ok = len(extras) == 1 and m["seq"][-1][0] == "Extra"
                extra_clause = ", has_parameterised(row_%d().operands, 0)%s" % (i, "" if extra_ok else ", false /* extra parameters not last */")
            ens = "shape_of(row_%d().operands, 0) =~= %s%s%s" % (
                i, ("seq![%s]" % ", ".join("(%dint, %dint)" % s for s in shape)) if shape else "Seq::<(int, int)>::empty()",
                extra_clause, "" if order_ok else ", false /* parameters used out of signature order: %s vs %s */" % (used, sig))
            has_rt = m["result_type"] != "None"
            has_rid = m["result_id"] != "None"
            ens += ", has_kind(row_%d().operands, OperandKind::IdResultType, 0) == %s, has_kind(row_%d().operands, OperandKind::IdResult, 0) == %s" % (
                i, "true" if has_rt else "false", i, "true" if has_rid else "false")
            claim = " && ".join("(%s)" % c.strip() for c in split_clauses(ens))
            g.raw("// Builder::%s (%s) emits Op%s: %s\npub closed spec fn claim_%s() -> bool {\n    %s\n}\n"
                  "pub proof fn builder_ops_%s()\n    ensures claim_%s()%s,\n{ assert(claim_%s()) by(compute_only); }"
                  % (m["name"], m["file"].split("/")[-1], m["op"],
                     " ".join("%s(%s:%s)" % (q, v, p) for q, v, p in m["seq"]) or "no operands", m["name"], claim,
                     m["name"], m["name"], ", false" if must_fail else "", m["name"]))
    if open_mod is not None:
        g.raw("} // mod")
    g.raw("} // mod grammar")
    g.raw("} // verus!")
    g.raw("fn main() {}")
    g.n_emitted = n_emitted
    return g


def describe():
    return {"unit": NAME, "functions_under_contract": [],
            "assumptions": ["the operand constructions of a generated Builder method are what its text shows (vec! literal, push under `if let Some`, extend, for-push), lifted mechanically on every run; "
                            "a method whose text does not fit these shapes makes the unit UNDECIDED",
                            "operand variant of a kind: LiteralInteger/LiteralFloat -> LiteralBit32, pair kinds -> two operands, every other kind -> the variant of the same name",
                            "result type / result id arguments and the target section are covered by units builder_core / builder_sections"]}


def witness(failure, ctx):
    """the method named by the failed obligation, called once on the real Builder inside a complete history,
    assembled and re-loaded (generated program, see units/method_sweep.py)"""
    from . import method_sweep
    m = re.match(r"lemma::builder_ops_(\w+)$", failure.get("item") or "")
    if not m:
        return {"found": False, "exhaustive": False, "how": "obligation not tied to one method"}
    name = m.group(1)
    names = [name] + ([name[:-3]] if name.endswith("_id") else [])
    return method_sweep.witness_for(names, ctx)
