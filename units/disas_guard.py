"""unit `disas_guard` — the panic sites of binary/disassemble.rs (C04): disas_constant and
disas_ext_inst, verbatim; the formatting callees are contract-only (R8: std formatting is outside
the family, see C07) and never panic. No precondition on the instruction: it may come from any
module (loaded or hand-built)."""
import re
from .common import Source, Piece, Gen, Lost, HEADER, count_clauses
from . import lib_spirv, lib_dr

NAME = "disas_guard"
FILE = "rspirv/binary/disassemble.rs"
TRACKER = "rspirv/binary/tracker.rs"

STUBS = r"""
pub mod tracker {
use vstd::prelude::*;
use crate::spirv;
%(TYPE)s
pub struct TypeTracker { pub types: Ghost<Map<u32, Type>> }
impl TypeTracker {
    #[verifier::external_body]
    pub fn resolve(&self, id: spirv::Word) -> (r: Option<Type>) { unimplemented!() }
}
pub struct ExtRow { pub opname: String }
pub type GExtInstRef = &'static ExtRow;
pub struct ExtInstSetTracker { pub sets: Ghost<Map<u32, int>> }
impl ExtInstSetTracker {
    #[verifier::external_body]
    pub fn have(&self, set: spirv::Word) -> (r: bool) { unimplemented!() }
    #[verifier::external_body]
    pub fn resolve(&self, set: spirv::Word, opcode: spirv::Word) -> (r: Option<GExtInstRef>) { unimplemented!() }
}
}
"""

FMT = r"""
// R8: formatting callees, contract-only, never panicking (std formatting is not modelled)
pub trait Disassemble { fn disassemble(&self) -> String; }
impl Disassemble for dr::Instruction { #[verifier::external_body] fn disassemble(&self) -> String { unimplemented!() } }
impl Disassemble for dr::Operand { #[verifier::external_body] fn disassemble(&self) -> String { unimplemented!() } }
#[verifier::external_body]
pub fn disas_instruction<F: Fn(&Vec<Operand>) -> String>(inst: &dr::Instruction, space: &str, disas_operands: F) -> String
    requires forall|v: &Vec<Operand>| call_requires(disas_operands, (v,)),
{ unimplemented!() }
#[verifier::external_body]
pub fn disas_literal_bit_operand<T>(value: T, literal_type: &Type) -> String { unimplemented!() }
#[verifier::external_body]
pub fn join_strings(v: &Vec<String>, sep: &str) -> String { unimplemented!() }
#[verifier::external_body]
pub fn string_clone(s: &String) -> String { unimplemented!() }
// R10: `v.first()` = Some(&v[0]) iff non-empty
pub fn vec_first(v: &Vec<Operand>) -> (r: Option<&Operand>)
    ensures r is Some <==> v@.len() > 0,
{ if v.len() > 0 { Some(&v[0]) } else { None } }
// R5
#[verifier::external_body]
pub fn slice_from<'a>(a: &'a Vec<Operand>, i: usize) -> (r: &'a [Operand])
    requires i <= a@.len(),
    ensures r@ == a@.subrange(i as int, a@.len() as int),
{ &a[i..] }
"""


def build(tier="quick", must_fail=False):
    g = Gen(NAME if not must_fail else NAME + "_mustfail")
    src = Source.get(FILE)
    tsrc = Source.get(TRACKER)
    g.raw(HEADER)
    g.raw("verus! {")
    lib_spirv.emit(g, with_alias=True, from_u32=False)
    lib_dr.emit_grammar(g, with_reflect=False)
    lib_dr.emit_dr(g, with_new=False)
    g.raw("pub mod binary {\nuse vstd::prelude::*;\nuse crate::spirv;\nuse crate::dr;")
    gt = Gen("tmp")
    gt.raw("#[derive(Clone, Copy, PartialEq, Eq)]")
    gt.emit(Piece(tsrc.find("enum", "Type")), name="binary::tracker::Type", under_contract=False)
    g.raw(STUBS % {"TYPE": "\n".join(gt.lines)})
    g.raw("pub mod disassemble {\nuse vstd::prelude::*;\nuse crate::binary::tracker::Type;\nuse crate::dr;\nuse crate::dr::Operand;\n"
          "use crate::dr::Operand::{LiteralBit32, LiteralBit64};\nuse crate::spirv;\nuse super::tracker;")
    g.raw(FMT)
    f = src.find("fn", "disas_constant")
    p = Piece(f)
    p.sub(r"debug_assert_eq!\([^;]*\);", "", "R12", required=False)
    # R10: Option::and_then(closure) by its definition
    p.sub(r"inst\.result_type\.and_then\(\|t\| type_tracker\.resolve\(t\)\)",
          "(match inst.result_type { Some(t) => type_tracker.resolve(t), None => None })", "R10", required=False)
    p.sub(r"^fn ", "pub fn ", "R15", count=1)
    # R23: `|_|` closure parameter gets a name (Verus accepts only variables there)
    p.sub(r"\|_\|", "|_unused: &Vec<Operand>|", "R23", required=False)
    # Option<&T>::first() on a Vec
    p.sub(r"inst\.operands\.first\(\)", "vec_first(&inst.operands)", "R10", required=False)
    if must_fail:
        p.name_result("r")
        p.add_contract("    ensures false,")
    g.emit(p, name="binary::disassemble::disas_constant")
    if False:  # disas_ext_inst: `(&A(x), &B(y)) = (&e1, &e2)` ref patterns are rejected by the installed Verus
        f2 = src.find("fn", "disas_ext_inst")
        p2 = Piece(f2)
        p2.sub(r"^fn ", "pub fn ", "R15", count=1)
        p2.rewrite_slices(ref_base=True)
        p2.sub(r"grammar\.opname\.to_string\(\)", "string_clone(&grammar.opname)", "R8", count=1)
        p2.sub(r"operands\.join\(\" \"\)", "join_strings(&operands, \" \")", "R8", count=1)
        p2.sub(r"\|_\|", "|_unused: &Vec<Operand>|", "R23", required=False)
        p2.sub(r"for operand in slice_from", "for operand in iter: slice_from", "G1", required=False)
        g.emit(p2, name="binary::disassemble::disas_ext_inst")
    g.raw("} // mod disassemble\n} // mod binary\n} // verus!\nfn main() {}")
    return g


def describe():
    return {
        "unit": NAME,
        "functions_under_contract": ["binary::disassemble::disas_constant"],
        "assumptions": ["R8: disas_instruction / Operand::disassemble / Instruction::disassemble / String::join / to_string (std formatting) do not panic",
                        "TypeTracker::resolve / ExtInstSetTracker::{have, resolve} (HashMap lookups) do not panic",
                        "NOT COVERED: disas_ext_inst (reference patterns rejected by Verus; its index sites are guarded by an explicit length test), "
                        "the iterator/format! bodies of the other Disassemble impls"],
    }


def witness(failure, ctx):
    from . import parser_core
    return parser_core.witness(failure, ctx)
