"""unit `spirv_enums` — spirv/autogen_spirv.rs: the 45 enum declarations, all 45 `from_u32`
(359 transmute arms), the 41 FromStr name tables and the alias constants (C08).

Spec side (O1): `declared_T(n)` is generated from the *declaration* `pub enum T { A = n, .. }`
(coalesced into maximal ranges), never from the `from_u32` code that is being verified.

R1: `unsafe { core::mem::transmute::<u32, T>(e) }` -> `transmute_T(e)`, a contract-only fn with
    `requires declared_T(e)`, so "no conversion materialises an undeclared discriminant" is an
    obligation of every arm of every real `from_u32`.
R14: the real `match s { "Name" => Self::V, .. }` arms of each FromStr impl become a spec
    if-chain over interned keys (the extractor maps every distinct string to a distinct integer;
    arm order — hence first-match semantics — is kept).
"""
import json
import os
import re
from .common import (Source, Piece, Gen, Lost, HEADER, SPIRV, ENUM_DERIVE, ENUM_EQ, enum_variants,
                     alias_consts, count_clauses)

NAME = "spirv_enums"
RLIMIT = 60
HAS_MUSTFAIL = True
SNAPSHOT = os.path.join(os.path.dirname(__file__), "..", "oracle", "enum_snapshot.json")


def ranges(vals):
    vals = sorted(set(vals))
    out = []
    for v in vals:
        if out and out[-1][1] + 1 == v:
            out[-1][1] = v
        else:
            out.append([v, v])
    return out


class Interner:
    def __init__(self):
        self.ids = {}

    def id(self, s):
        if s not in self.ids:
            self.ids[s] = len(self.ids)
        return self.ids[s]


def fromstr_arms(impl_item):
    """[(key string, variant)] from the real match, in order."""
    fn = [c for c in impl_item.children if c.kind == "fn" and c.name == "from_str"]
    if len(fn) != 1:
        raise Lost("FromStr for %s: from_str not found" % impl_item.impl_of)
    t = fn[0].core_text
    m = re.search(r"Ok\s*\(\s*match\s+s\s*\{(.*)\}\s*\)\s*\}\s*$", t, re.S)
    if not m:
        raise Lost("FromStr for %s: unexpected shape" % impl_item.impl_of)
    body = m.group(1)
    arms = []
    rest = body
    pos = 0
    # `"K" => Self::V,` or (rustfmt's long form) `"K" => { Self::V }`
    arm_re = re.compile(r'\s*"((?:[^"\\]|\\.)*)"\s*=>\s*(?:Self::(\w+)\s*,|\{\s*Self::(\w+)\s*\}\s*,?)')
    while True:
        mm = arm_re.match(rest, pos)
        if not mm:
            break
        arms.append((mm.group(1), mm.group(2) or mm.group(3)))
        pos = mm.end()
    tail = rest[pos:].strip()
    if not re.match(r"^_\s*=>\s*return\s+Err\s*\(\s*\(\s*\)\s*\)\s*,?$", tail):
        raise Lost("FromStr for %s: unexpected tail %r" % (impl_item.impl_of, tail[:80]))
    return arms, fn[0]


def enum_names():
    return [e.name for e in Source.get(SPIRV).find_all("enum")]


def snapshot_now():
    """what the O4 snapshot holds, recomputed from the tree (used by tools/freeze_oracle.py)."""
    src = Source.get(SPIRV)
    out = {}
    for e in src.find_all("enum"):
        out[e.name] = {"variants": [[n, v] for n, v in enum_variants(e)],
                       "aliases": alias_consts(SPIRV, e.name)}
    return out


# FPEncoding (single variant, discriminant 0x7fffffff) gets a file of its own: the installed Verus
# loses that discriminant as soon as another enum is declared in the same crate (incompleteness,
# found by bisection; alone it verifies).
BIG = ["Op", "Capability", "Decoration", "BuiltIn", "ExecutionMode", "FPEncoding"]


def shards(tier):
    return BIG + ["rest"]


def build(tier="quick", must_fail=False, only=None, shard=None):
    g = Gen(NAME if not must_fail else NAME + "_mustfail")
    if shard is not None and not must_fail:
        only = [shard] if shard != "rest" else [n for n in enum_names() if n not in BIG]
    src = Source.get(SPIRV)
    intern = Interner()
    g.raw(HEADER)
    g.raw("verus! {")
    g.raw("pub mod spirv {")
    g.raw("use vstd::prelude::*;")
    g.raw("pub type Word = u32;")
    enums = src.find_all("enum")
    if only:
        enums = [e for e in enums if e.name in only]
    if must_fail:
        enums = [e for e in enums if e.name in ("SourceLanguage",)]
    if len(enums) == 0:
        raise Lost("no enums found")
    # Verus (installed build) loses the discriminant of a single-variant enum when another enum
    # precedes it in the module; emitting those first avoids the (incompleteness) bug.
    enums = sorted(enums, key=lambda e: 0 if len(enum_variants(e)) == 1 else 1)
    snap = json.load(open(SNAPSHOT)) if os.path.exists(SNAPSHOT) else None
    g.n_arms = 0
    g.enum_info = {}
    for e in enums:
        T = e.name
        vs = enum_variants(e)
        if any(v is None for _, v in vs):
            raise Lost("enum %s has a variant without explicit discriminant" % T)
        rs = ranges([v for _, v in vs])
        g.enum_info[T] = {"variants": vs, "ranges": rs}
        # -- declaration (real text) -------------------------------------------------
        g.raw(ENUM_DERIVE.rstrip("\n"))
        g.emit(Piece(e), name="enum " + T, under_contract=False)
        g.raw(ENUM_EQ % {"T": T})
        # -- O1: declared discriminants ----------------------------------------------
        cond = " || ".join(("n == %d" % a) if a == b else ("(%d <= n && n <= %d)" % (a, b)) for a, b in rs)
        g.raw("// O1: discriminants declared by `pub enum %s` (%d variants, %d ranges)" % (T, len(vs), len(rs)))
        g.raw("pub open spec fn declared_%s(n: u32) -> bool { %s }" % (T, cond))
        g.raw("// R1: contract-only stand-in for `unsafe { core::mem::transmute::<u32, %s>(n) }`" % T)
        g.raw("// `v as u32`, hidden from the from_u32 query (keeps the %d-variant discriminant table out of it)\n"
              "#[verifier::opaque]\npub open spec fn disc_%s(v: %s) -> u32 { v as u32 }\n"
              "pub proof fn disc_is_cast_%s(v: %s) ensures disc_%s(v) == v as u32 { reveal(disc_%s); }"
              % (len(vs), T, T, T, T, T, T))
        g.raw("#[verifier::external_body]\npub fn transmute_%s(n: u32) -> (r: %s)\n    requires declared_%s(n),\n"
              "    ensures disc_%s(r) == n,\n{ unimplemented!() }" % (T, T, T, T))
        # every variant's discriminant is declared (links the spec predicate to the datatype)
        g.raw("pub proof fn variants_declared_%s(v: %s) ensures declared_%s(v as u32) {}" % (T, T, T))
        # -- from_u32 (real text, R1) -------------------------------------------------
        f = src.find("fn", T + "::from_u32")
        p = Piece(f)
        n = p.sub(r"unsafe\s*\{\s*core::mem::transmute::<\s*u32\s*,\s*%s\s*>\s*\(\s*(\w+)\s*\)\s*\}" % T,
                  r"transmute_%s(\1)" % T, "R1", required=False)
        g.n_arms += n
        p.name_result("r")
        if must_fail:
            contract = "    ensures false,"
        else:
            contract = ("    ensures\n        (r is Some) <==> declared_%s(n),\n"
                        "        r matches Some(v) ==> %s == n," % (T, ("disc_%s(v)" % T) if n > 0 else "v as u32"))
        p.add_contract(contract)
        g.contract_clauses += count_clauses(contract)
        g.raw("impl %s {" % T)
        g.emit(p, name="spirv::%s::from_u32" % T)
        g.raw("}")
        if must_fail:
            continue
        # -- alias constants (real text) ---------------------------------------------
        aliases = alias_consts(SPIRV, T)
        for imp in src.find_all("impl", lambda i: i.impl_of == T and i.impl_trait is None):
            if imp.children and all(c.kind == "const" for c in imp.children):
                g.emit(Piece(imp), name="impl %s (alias consts)" % T, under_contract=False)
        # -- names ---------------------------------------------------------------------
        fs = [i for i in src.find_all("impl") if i.impl_of == T and i.impl_trait == "FromStr"]
        if fs:
            arms, fitem = fromstr_arms(fs[0])
            lines = ["// R14: arms of the real `impl FromStr for %s` (%s:%d), keys interned" % (T, SPIRV, fitem.line),
                     "pub open spec fn from_str_%s(k: int) -> Option<%s> {" % (T, T)]
            first = True
            for key, var in arms:
                lines.append("    %sif k == %d { Some(%s::%s) } // \"%s\"" % ("" if first else "else ", intern.id(key), T, var, key))
                first = False
            lines.append("    else { None }\n}" if arms else "    None\n}")
            g.raw("\n".join(lines))
            g.rewrites.append({"rule": "R14", "file": SPIRV, "line": fitem.line,
                               "before": "match s { %d string arms }" % len(arms),
                               "after": "spec fn from_str_%s over interned keys" % T})
            # variant identifier -> interned key (stringify of the declaration's identifiers)
            g.raw("pub open spec fn name_%s(v: %s) -> int {\n    match v {\n%s\n    }\n}" % (
                T, T, "\n".join("        %s::%s => %d," % (T, n_, intern.id(n_)) for n_, _ in vs)))
            g.raw("// C08: the textual name of every value parses back to that value\n"
                  "pub proof fn names_roundtrip_%s(v: %s) ensures from_str_%s(name_%s(v)) == Some(v) {\n    match v {\n%s\n    }\n}"
                  % (T, T, T, T, "\n".join(
                      "        %s::%s => { assert(from_str_%s(%d) == Some(%s::%s)) by(compute_only); }"
                      % (T, n_, T, intern.id(n_), T, n_) for n_, _ in vs)))
            for a, tgt in sorted(aliases.items()):
                g.raw("// C08: alias `%s::%s` parses to the value it aliases\n"
                      "pub proof fn alias_%s_%s() ensures from_str_%s(%d) == Some(%s::%s), %s::%s == %s::%s {}"
                      % (T, a, T, a, T, intern.id(a), T, tgt, T, a, T, tgt))
        # -- O4 snapshot ----------------------------------------------------------------
        if snap is not None:
            if T not in snap:
                g.raw("pub proof fn snapshot_%s() ensures false /* enum %s is not in the O4 snapshot */ {}" % (T, T))
            else:
                sv = dict((n_, v_) for n_, v_ in snap[T]["variants"])
                # value of each variant identifier according to the snapshot; -1 = not in snapshot
                arms_ = "\n".join("        %s::%s => %d," % (T, n_, sv.get(n_, -1)) for n_, _ in vs)
                g.raw("// O4 (trusted baseline): names and numbers of %s as frozen from the pinned tree\n"
                      "pub open spec fn snap_%s(v: %s) -> int {\n    match v {\n%s\n    }\n}" % (T, T, T, arms_))
                g.raw("pub proof fn snapshot_%s(v: %s) ensures snap_%s(v) == (v as u32) as int {}" % (T, T, T))
                missing = [n_ for n_ in sv if n_ not in dict(vs)]
                g.raw("pub proof fn snapshot_count_%s() ensures %d == %d, %s {}" % (
                    T, len(vs), len(sv), "true" if not missing else "false /* snapshot variants missing: %s */" % ",".join(missing[:5])))
                sa = snap[T].get("aliases", {})
                bad = [a for a in sa if aliases.get(a) != sa[a]] + [a for a in aliases if a not in sa]
                g.raw("pub proof fn snapshot_aliases_%s() ensures %s {}" % (
                    T, "true" if not bad else "false /* alias set differs from snapshot: %s */" % ",".join(bad[:5])))
    g.raw("} // mod spirv")
    g.raw("} // verus!")
    g.raw("fn main() {}")
    g.intern = intern
    return g


def describe():
    names = enum_names()
    return {
        "unit": NAME,
        "functions_under_contract": ["spirv::%s::from_u32" % n for n in names],
        "trusted_base": ["O4 enum_snapshot.json (frozen from the pinned tree; stands in for the absent Khronos JSON)"],
        "assumptions": [
            "R1: transmute::<u32,T>(n) returns the variant with discriminant n when declared_T(n) (declared_T generated from the enum declaration; validated by Kani harness kani/spirv_enums in thorough tier)",
            "R14: first-match semantics of Rust string `match`; keys interned injectively by the extractor",
            "derived PartialEq on fieldless enums is structural equality (R19)",
        ],
    }


# ---------------------------------------------------------------------------
# witness: boundary scan of the failing enum's from_u32 on the real crate
# ---------------------------------------------------------------------------

def witness(failure, ctx):
    item = failure.get("item") or ""
    m = re.match(r"spirv::(\w+)::from_u32", item)
    if m:
        T = m.group(1)
        e = Source.get(SPIRV).find("enum", T)
        vals = sorted(v for _, v in enum_variants(e))
        p, err = ctx["vreplay"](["enum-scan", T])
        if p is None or p.returncode not in (0,):
            return {"found": False, "error": err or (p.stderr[-400:] if p else "")}
        bad = []
        decl = set(vals)
        for line in p.stdout.splitlines():
            parts = line.split()
            n, res = int(parts[0]), parts[1]
            if (res != "None") != (n in decl) or (res != "None" and int(res) != n):
                bad.append({"n": n, "real_from_u32": res, "declared": n in decl})
        return {"found": bool(bad), "exhaustive": False, "input": bad[:10],
                "how": "vreplay enum-scan %s: real from_u32 on 0..=70000 and +-2 around every declared range bound and arm bound" % T}
    # names: every declared variant name and alias of every enumeration parses (FromStr) to its value, and the Debug name of every
    # value parses back to it (generated program over the declarations of the tree under check)
    lines = ["// generated by /verif/units/spirv_enums.py", "#![allow(unused, non_upper_case_globals)]", "use rspirv::spirv;", "use std::str::FromStr;", "fn main() {", "    let mut bad = 0;"]
    src = Source.get(SPIRV)
    for e in src.find_all("enum"):
        T = e.name
        if not re.search(r"FromStr\s+for\s+%s\b" % T, src.text):
            continue
        for n_, _v in enum_variants(e):
            lines.append('    if spirv::%s::from_str("%s") != Ok(spirv::%s::%s) { bad += 1; println!("MISMATCH %s::from_str(%s) = {:?}", spirv::%s::from_str("%s")); }' % (T, n_, T, n_, T, n_, T, n_))
            lines.append('    if format!("{:?}", spirv::%s::%s).parse::<spirv::%s>() != Ok(spirv::%s::%s) { bad += 1; println!("MISMATCH the Debug name of %s::%s does not parse back"); }' % (T, n_, T, T, n_, T, n_))
        for imp in src.find_all("impl", lambda i: i.impl_of == T and i.impl_trait is None):
            for c in imp.children:
                if c.kind == "const":
                    lines.append('    if spirv::%s::from_str("%s") != Ok(spirv::%s::%s) { bad += 1; println!("MISMATCH alias %s::from_str(%s) = {:?}", spirv::%s::from_str("%s")); }' % (T, c.name, T, c.name, T, c.name, T, c.name))
    lines += ['    println!("checked, {} mismatches", bad);', "}"]
    p, err = ctx["vgen"]("names_witness", "\n".join(lines), [])
    if p is None:
        return {"found": False, "error": err}
    out = p.stdout.splitlines()
    mm = [l for l in out if l.startswith("MISMATCH")]
    return {"found": bool(mm), "exhaustive": True, "input": mm[:8], "observed": out[-1:],
            "how": "generated program: FromStr of every declared variant name and alias, Debug name of every value, on the real spirv crate"}
