"""unit `kani_masks` — the 15 `bitflags!` types of spirv/autogen_spirv.rs (C08, and the R2
dependency contract used by the Verus decoder/parser units).

Kani, on the REAL `spirv` crate (real bitflags expansion), one harness per mask type, over all
2^32 numbers: `from_bits(n)` is `Some` iff `n & !ALL == 0`, and then `.bits() == n`;
`from_bits_truncate`/`bits`/`contains`/`is_empty`/`union` behave as the R2 stub says.
`ALL` is the or of the constants *declared* in the bitflags! block (O1), read from the source
text on every run. The harnesses are loop-free after constant evaluation (unwind 40 with
unwinding assertions on), i.e. complete proofs, not bounded stand-ins.
"""
import os
import re
import sys
sys.path.insert(0, os.path.join(os.path.dirname(__file__), "..", "tools"))
import krun  # noqa: E402
from .common import Source, Lost, SPIRV  # noqa: E402

NAME = "kani_masks"
ENGINE = "kani"


def mask_decls():
    """[(type name, [(const, value)])] from the bitflags! blocks (O1)."""
    src = Source.get(SPIRV)
    out = []
    for it in src.find_all("macrocall", lambda i: i.name == "bitflags"):
        t = it.core_text
        m = re.search(r"pub\s+struct\s+(\w+)\s*:\s*u32\s*\{(.*)\}\s*\}\s*$", t, re.S)
        if not m:
            raise Lost("bitflags! block with unexpected shape at %s:%d" % (SPIRV, it.line))
        consts = re.findall(r"const\s+(\w+)\s*=\s*(0x[0-9a-fA-F_]+|\d+|!\s*0)\s*(?:u32)?\s*;", m.group(2))
        n_decl = len(re.findall(r"\bconst\b", m.group(2)))
        if n_decl != len(consts):
            raise Lost("bitflags! %s: %d consts declared, %d read" % (m.group(1), n_decl, len(consts)))
        # `const _ = !0;` is the bitflags 2.x unnamed flag (every bit known): kept as ("_", 0xffffffff)
        out.append((m.group(1), [(c, 0xffffffff if v.startswith("!") else int(v.replace("_", ""), 0)) for c, v in consts]))
    if not out:
        raise Lost("no bitflags! blocks found")
    return out


MASK_SNAPSHOT = os.path.join(os.path.dirname(__file__), "..", "oracle", "mask_snapshot.json")


def snapshot_now():
    """O4: named flag constants of every bit-mask type (frozen by tools/freeze_oracle.py; stands in for the absent Khronos JSON)"""
    return {T: {c: v for c, v in consts if c != "_"} for T, consts in mask_decls()}


def load_snapshot():
    import json
    return json.load(open(MASK_SNAPSHOT))


def all_bits(consts):
    a = 0
    for _, v in consts:
        a |= v
    return a


CARGO = """[package]
name = "kani_masks"
version = "0.0.0"
edition = "2018"
[dependencies]
spirv = { path = "@REPO@/spirv" }
[workspace]
"""


def harness_text(decls, broken=False):
    hs = ["#![allow(non_snake_case)]", "#[cfg(kani)]", "mod h {"]
    snap = load_snapshot()
    for T, consts in decls:
        sn = snap.get(T)
        named = {c: v for c, v in consts if c != "_"}
        # O4: the declared flags are those of the snapshot; a type or constant the snapshot lacks, an unnamed catch-all flag,
        # or a missing constant makes `snapshot_agrees` false
        agrees = sn is not None and named == sn and len(named) == len(consts)
        ALL = all_bits(list((sn or named).items()))
        hs.append("""
    #[kani::proof]
    #[kani::unwind(40)]
    fn mask_%(T)s() {
        const ALL: u32 = %(ALL)d; // or of the declared flag constants (O4 snapshot)
        let n: u32 = kani::any();
        let r = spirv::%(T)s::from_bits(n);
        // C08: accepted iff all set bits are declared; the value converts back to the same number
        assert!(r.is_some() == (n & !ALL == 0));
        if let Some(v) = r {
            assert!(v.bits() == n);
        }
        // R2 dependency contract used by the Verus units
        let t = spirv::%(T)s::from_bits_truncate(n);
        assert!(t.bits() == n & ALL);
        assert!(spirv::%(T)s::all().bits() == ALL);
        let m: u32 = kani::any();
        let u = spirv::%(T)s::from_bits_truncate(m);
        assert!(t.contains(u) == (t.bits() & u.bits() == u.bits()));
        assert!(t.intersects(u) == (t.bits() & u.bits() != 0));
        assert!(t.is_empty() == (t.bits() == 0));
        assert!((t | u).bits() == t.bits() | u.bits());
        assert!(t.union(u).bits() == t.bits() | u.bits());
        assert!((t == u) == (t.bits() == u.bits()));
%(CONSTS)s
    }
    #[kani::proof]
    fn mask_snapshot_%(T)s() {
        // declared flag names and values of %(T)s equal the O4 snapshot: %(WHY)s
        assert!(%(AGREES)s);
    }""" % {"T": T, "ALL": ALL, "N": len(consts), "AGREES": "true" if agrees else "false",
            "WHY": "yes" if agrees else "NO: source %s vs snapshot %s" % (sorted(set(named.items()) ^ set((sn or {}).items()))[:4], "present" if sn is not None else "absent"),
            "CONSTS": "\n".join("        assert!(spirv::%s::%s.bits() == %d);" % (T, c, v) for c, v in consts if c != "_")})
    if broken:
        T, consts = decls[0]
        hs.append("""
    #[kani::proof]
    #[kani::unwind(40)]
    fn mustfail_mask() {
        let n: u32 = kani::any();
        assert!(spirv::%s::from_bits(n).is_some()); // must be refuted
    }""" % T)
    hs.append("}")
    return "\n".join(hs) + "\n"


def run(tier, workdir):
    decls = mask_decls()
    d = krun.prepare(NAME, {"Cargo.toml": CARGO, "src/lib.rs": harness_text(decls, broken=True)},
                     os.path.dirname(workdir))
    hs = {"mask_%s" % T: {"kind": "complete"} for T, _ in decls}
    hs.update({"mask_snapshot_%s" % T: {"kind": "complete"} for T, _ in decls})
    hs["mustfail_mask"] = {"kind": "control"}
    r = krun.run_kani(d, hs, unit=NAME, timeout=1800)
    # vacuity control: mustfail_mask has to be refuted
    mf = r["functions"].pop(NAME + "::mustfail_mask", None)
    rejected = mf is not None and not mf["ok"] and any(f["item"] == "harness::mustfail_mask" for f in r["failures"])
    r["failures"] = [f for f in r["failures"] if f["item"] != "harness::mustfail_mask"]
    r["errors"] = len([1 for f in r["functions"].values() if not f["ok"]])
    r["mustfail"] = {"rejected": rejected, "failures": 1 if rejected else 0, "undecided": []}
    r["mask_types"] = len(decls)
    return r


def describe():
    return {
        "unit": NAME,
        "functions_under_contract": ["spirv::%s::{from_bits, from_bits_truncate, bits, all, contains, intersects, is_empty, bitor, eq}" % T
                                     for T, _ in mask_decls()],
        "assumptions": ["CBMC memory model; Kani's translation of the bitflags 2.x expansion"],
    }


def witness(failure, ctx):
    pb = failure.get("playback")
    return {"found": bool(pb), "exhaustive": False, "input": pb,
            "how": "Kani concrete playback" if pb else "Kani gave no concrete values"}
