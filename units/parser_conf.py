"""C03 (acceptance structure) for unit parser_core: the specification `conforms(row, inst, exhausted)` —
the operand vector of a delivered instruction is a concatenation of chunks, one per concrete operand,
that follows the grammar row: logical operands in order, each required one present exactly once,
optional ones at most once, only a variadic one repeated, each chunk of the operand variant(s) its
kind dictates, the match stopping only at the end of the row or (with every word of the declared
extent used up) at an optional / variadic operand, result type / result id present exactly when
the row has them. Nested inside OpSpecConstantOp the same holds for the embedded opcode's row.

Ghost witnesses (ks: logical operand of each chunk, ends: end index of each chunk, pos: chunk of each
logical operand or -1, m: logical operands consumed) are maintained by ghost statements inserted into
the real loops; the postconditions quantify them existentially."""
from .common import Source, enum_variants
from .lift_builder import variant_of_kind

PARAMETERISED = ["ImageOperands", "LoopControl", "MemoryAccess", "ExecutionMode", "Decoration", "TensorAddressingOperands"]


def spec_text(kinds, variants):
    idx = {v: i for i, v in enumerate(variants)}

    def ktag(k):
        v = variant_of_kind(k)
        if v.startswith("Pair:") or k in ("LiteralContextDependentNumber", "IdResultType", "IdResult"):
            return -1
        return idx[v]
    out = []
    out.append("// ---- C03: conformance of a delivered operand vector to a grammar row ---------------------------------")
    out.append("pub open spec fn is_res(k: GOpKind) -> bool { k == GOpKind::IdResultType || k == GOpKind::IdResult }")
    out.append("pub open spec fn is_lit(op: dr::Operand) -> bool { op is LiteralBit32 || op is LiteralBit64 }")
    out.append("pub open spec fn parameterised(k: GOpKind) -> bool { %s }" % " || ".join("k == GOpKind::%s" % k for k in PARAMETERISED))
    def first_variant(k):
        v = variant_of_kind(k)
        if v.startswith("Pair:") or k in ("LiteralContextDependentNumber", "IdResultType", "IdResult", "LiteralSpecConstantOpInteger"):
            return "false"
        if v not in idx:
            raise KeyError(v)
        return "op is %s" % v
    out.append("// the operand variant that carries a value of a (generic, non-pair) kind\n"
               "pub open spec fn kind_first(k: GOpKind, op: dr::Operand) -> bool {\n    match k {\n%s\n    }\n}" % "\n".join(
                   "        GOpKind::%s => %s," % (k, first_variant(k)) for k in kinds))
    out.append("""pub proof fn wf_ids_at(o: Seq<grammar::LogicalOperand>, lo: int, j: int)
    requires grammar::wf_ids(o, lo), 0 <= lo,
    ensures (lo <= j < o.len()) ==> ((o[j].kind == GOpKind::IdResultType ==> (j == 0 && o[j].quantifier == GOpCount::One))
        && (o[j].kind == GOpKind::IdResult ==> (o[j].quantifier == GOpCount::One && (j == 0 || (j == 1 && o[0].kind == GOpKind::IdResultType))))),
    decreases j - lo,
{ if lo < j && j < o.len() { wf_ids_at(o, lo + 1, j); } }""")
    out.append("pub open spec fn ext(a: Seq<dr::Operand>, b: Seq<dr::Operand>) -> bool { a.len() <= b.len() && forall|i: int| 0 <= i < a.len() ==> a[i] == b[i] }")
    out.append("pub open spec fn start_of(base: int, ends: Seq<int>, i: int) -> int { if i <= 0 { base } else { ends[i - 1] } }")
    out.append("pub open spec fn end_of(base: int, ends: Seq<int>) -> int { if ends.len() == 0 { base } else { ends[ends.len() - 1] } }")
    for X, nested_line in (("n", "GOpKind::LiteralSpecConstantOpInteger => false,"),
                           ("t", "GOpKind::LiteralSpecConstantOpInteger => (ops[s] matches dr::Operand::LiteralSpecConstantOpInteger(op) && nested_ok(op, ops, s + 1, e, true)),")):
        nest = "false" if X == "n" else "true"
        out.append("""// one concrete operand (chunk ops[s..e]) of logical operand kind k%s
pub open spec fn chunk_ok_%s(k: GOpKind, ops: Seq<dr::Operand>, s: int, e: int) -> bool {
    &&& 0 <= s < e <= ops.len()
    &&& match k {
        GOpKind::IdResultType | GOpKind::IdResult => false,
        GOpKind::LiteralContextDependentNumber => %s && e == s + 1 && is_lit(ops[s]),
        GOpKind::PairLiteralIntegerIdRef => %s && e == s + 2 && is_lit(ops[s]) && ops[s + 1] is IdRef,
        %s
        GOpKind::PairIdRefLiteralInteger => e == s + 2 && ops[s] is IdRef && ops[s + 1] is LiteralBit32,
        GOpKind::PairIdRefIdRef => e == s + 2 && ops[s] is IdRef && ops[s + 1] is IdRef,
        _ => kind_first(k, ops[s]) && (parameterised(k) || e == s + 1),
    }
}
pub open spec fn chunk_i_%s(row: Seq<grammar::LogicalOperand>, ops: Seq<dr::Operand>, base: int, ks: Seq<int>, ends: Seq<int>, m: int, i: int) -> bool {
    &&& 0 <= ks[i] < row.len() && !is_res(row[ks[i]].kind)
    &&& chunk_ok_%s(row[ks[i]].kind, ops, start_of(base, ends, i), ends[i])
    // grammar order; only a variadic logical operand has more than one chunk
    &&& (i + 1 < ks.len() ==> (ks[i] < ks[i + 1] || (ks[i] == ks[i + 1] && row[ks[i]].quantifier == GOpCount::ZeroOrMore)))
    &&& (ks[i] < m || (ks[i] == m && row[ks[i]].quantifier == GOpCount::ZeroOrMore))
}
// m logical operands consumed; `exhausted`: every word of the declared extent has been used
pub open spec fn conforms_%s(row: Seq<grammar::LogicalOperand>, ops: Seq<dr::Operand>, base: int, ks: Seq<int>, ends: Seq<int>, pos: Seq<int>, m: int, exhausted: bool) -> bool {
    &&& ks.len() == ends.len() && 0 <= m <= row.len() && pos.len() == m && 0 <= base <= ops.len()
    &&& forall|i: int| 0 <= i < ks.len() ==> #[trigger] chunk_i_%s(row, ops, base, ks, ends, m, i)
    &&& forall|j: int| 0 <= j < m ==> #[trigger] logical_j(row, ks, pos, j, exhausted)
}""" % ("" if X == "t" else " inside OpSpecConstantOp (context-dependent kinds cannot be embedded)", X, nest, nest, nested_line, X, X, X, X))
        if X == "n":
            out.append("""// logical operand j (< m) was dealt with: result ids have no chunk; a required operand has its chunk; an optional /
// variadic one has a chunk or was absent because the words were used up
pub open spec fn logical_j(row: Seq<grammar::LogicalOperand>, ks: Seq<int>, pos: Seq<int>, j: int, exhausted: bool) -> bool {
    if is_res(row[j].kind) { pos[j] == -1 }
    else if pos[j] == -1 { row[j].quantifier != GOpCount::One && exhausted }
    else { 0 <= pos[j] < ks.len() && ks[pos[j]] == j }
}
// where the match may stop: at the end of the row, or at an optional / variadic operand once the words are used up;
// a variadic operand is left behind only when the words are used up (greedy)
pub open spec fn stop_ok(row: Seq<grammar::LogicalOperand>, m: int, exhausted: bool) -> bool {
    &&& (m < row.len() ==> (row[m].quantifier != GOpCount::One && exhausted))
    &&& (forall|j: int| 0 <= j < m && j < row.len() ==> ((#[trigger] row[j]).quantifier == GOpCount::ZeroOrMore ==> exhausted))
}
// the operands of the opcode embedded in OpSpecConstantOp: ops[s..e] conforms to that opcode's row (result ids excluded)
pub open spec fn nested_ok(op: spirv::Op, ops: Seq<dr::Operand>, s: int, e: int, exhausted: bool) -> bool {
    exists|ks: Seq<int>, ends: Seq<int>, pos: Seq<int>, m: int|
        #[trigger] conforms_n(grammar::row_operands(op), ops, s, ks, ends, pos, m, exhausted) && end_of(s, ends) == e
        && stop_ok(grammar::row_operands(op), m, exhausted)
}""")
    out.append("""// C03: the delivered instruction has the result-type / result-id presence and the operand structure its row dictates
pub open spec fn conforms(row: Seq<grammar::LogicalOperand>, rtype: Option<spirv::Word>, rid: Option<spirv::Word>, ops: Seq<dr::Operand>, exhausted: bool) -> bool {
    &&& (rtype is Some <==> (row.len() > 0 && row[0].kind == GOpKind::IdResultType))
    &&& (rid is Some <==> ((row.len() > 0 && row[0].kind == GOpKind::IdResult) || (row.len() > 1 && row[1].kind == GOpKind::IdResult)))
    &&& exists|ks: Seq<int>, ends: Seq<int>, pos: Seq<int>, m: int|
            #[trigger] conforms_t(row, ops, 0, ks, ends, pos, m, exhausted) && end_of(0, ends) == ops.len() && stop_ok(row, m, exhausted)
}
// ---- lemmas: the structure is about indices below the end of the last chunk, so it survives appending -----------
pub proof fn conforms_n_ext(row: Seq<grammar::LogicalOperand>, a: Seq<dr::Operand>, b: Seq<dr::Operand>, base: int, ks: Seq<int>, ends: Seq<int>, pos: Seq<int>, m: int, ex: bool)
    requires conforms_n(row, a, base, ks, ends, pos, m, ex), ext(a, b),
    ensures conforms_n(row, b, base, ks, ends, pos, m, ex),
{
    assert forall|i: int| 0 <= i < ks.len() implies #[trigger] chunk_i_n(row, b, base, ks, ends, m, i) by { assert(chunk_i_n(row, a, base, ks, ends, m, i)); }
    assert forall|j: int| 0 <= j < m implies #[trigger] logical_j(row, ks, pos, j, ex) by { assert(logical_j(row, ks, pos, j, ex)); }
}
pub proof fn nested_ok_ext(op: spirv::Op, a: Seq<dr::Operand>, b: Seq<dr::Operand>, s: int, e: int, ex: bool)
    requires nested_ok(op, a, s, e, ex), ext(a, b),
    ensures nested_ok(op, b, s, e, ex),
{
    let (ks, ends, pos, m) = choose|ks: Seq<int>, ends: Seq<int>, pos: Seq<int>, m: int|
        #[trigger] conforms_n(grammar::row_operands(op), a, s, ks, ends, pos, m, ex) && end_of(s, ends) == e && stop_ok(grammar::row_operands(op), m, ex);
    conforms_n_ext(grammar::row_operands(op), a, b, s, ks, ends, pos, m, ex);
}
pub proof fn chunk_ok_t_ext(k: GOpKind, a: Seq<dr::Operand>, b: Seq<dr::Operand>, s: int, e: int)
    requires chunk_ok_t(k, a, s, e), ext(a, b),
    ensures chunk_ok_t(k, b, s, e),
{
    if k == GOpKind::LiteralSpecConstantOpInteger {
        match a[s] { dr::Operand::LiteralSpecConstantOpInteger(op) => { nested_ok_ext(op, a, b, s + 1, e, true); } _ => {} }
    }
}
pub proof fn conforms_t_ext(row: Seq<grammar::LogicalOperand>, a: Seq<dr::Operand>, b: Seq<dr::Operand>, base: int, ks: Seq<int>, ends: Seq<int>, pos: Seq<int>, m: int, ex: bool)
    requires conforms_t(row, a, base, ks, ends, pos, m, ex), ext(a, b),
    ensures conforms_t(row, b, base, ks, ends, pos, m, ex),
{
    assert forall|i: int| 0 <= i < ks.len() implies #[trigger] chunk_i_t(row, b, base, ks, ends, m, i) by {
        assert(chunk_i_t(row, a, base, ks, ends, m, i));
        chunk_ok_t_ext(row[ks[i]].kind, a, b, start_of(base, ends, i), ends[i]);
    }
    assert forall|j: int| 0 <= j < m implies #[trigger] logical_j(row, ks, pos, j, ex) by { assert(logical_j(row, ks, pos, j, ex)); }
}
// once the words are used up they stay used up: `exhausted` may be strengthened
pub proof fn conforms_weaken(row: Seq<grammar::LogicalOperand>, a: Seq<dr::Operand>, base: int, ks: Seq<int>, ends: Seq<int>, pos: Seq<int>, m: int, ex: bool, ex2: bool)
    requires ex ==> ex2,
    ensures conforms_n(row, a, base, ks, ends, pos, m, ex) ==> conforms_n(row, a, base, ks, ends, pos, m, ex2),
        conforms_t(row, a, base, ks, ends, pos, m, ex) ==> conforms_t(row, a, base, ks, ends, pos, m, ex2),
{
    if conforms_n(row, a, base, ks, ends, pos, m, ex) {
        assert forall|i: int| 0 <= i < ks.len() implies #[trigger] chunk_i_n(row, a, base, ks, ends, m, i) by { assert(chunk_i_n(row, a, base, ks, ends, m, i)); }
        assert forall|j: int| 0 <= j < m implies #[trigger] logical_j(row, ks, pos, j, ex2) by { assert(logical_j(row, ks, pos, j, ex)); }
    }
    if conforms_t(row, a, base, ks, ends, pos, m, ex) {
        assert forall|i: int| 0 <= i < ks.len() implies #[trigger] chunk_i_t(row, a, base, ks, ends, m, i) by { assert(chunk_i_t(row, a, base, ks, ends, m, i)); }
        assert forall|j: int| 0 <= j < m implies #[trigger] logical_j(row, ks, pos, j, ex2) by { assert(logical_j(row, ks, pos, j, ex)); }
    }
}
// a new chunk c0.len()..c1.len() for logical operand m, which is then left behind (required / optional operand)
pub proof fn push_advance_%(X)s(row: Seq<grammar::LogicalOperand>, c0: Seq<dr::Operand>, c1: Seq<dr::Operand>, base: int, ks: Seq<int>, ends: Seq<int>, pos: Seq<int>, m: int, ex: bool)
    requires conforms_%(X)s(row, c0, base, ks, ends, pos, m, ex), end_of(base, ends) == c0.len(), ext(c0, c1), m < row.len(),
        row[m].quantifier != GOpCount::ZeroOrMore, !is_res(row[m].kind), chunk_ok_%(X)s(row[m].kind, c1, c0.len() as int, c1.len() as int),
    ensures conforms_%(X)s(row, c1, base, ks.push(m), ends.push(c1.len() as int), pos.push(ks.len() as int), m + 1, ex),
        end_of(base, ends.push(c1.len() as int)) == c1.len(),
{
    conforms_%(X)s_ext(row, c0, c1, base, ks, ends, pos, m, ex);
    let ks2 = ks.push(m); let ends2 = ends.push(c1.len() as int); let pos2 = pos.push(ks.len() as int);
    assert forall|i: int| 0 <= i < ks2.len() implies #[trigger] chunk_i_%(X)s(row, c1, base, ks2, ends2, m + 1, i) by {
        if i < ks.len() { assert(chunk_i_%(X)s(row, c1, base, ks, ends, m, i)); assert(start_of(base, ends2, i) == start_of(base, ends, i)); }
        else { assert(start_of(base, ends2, i) == c0.len()); }
    }
    assert forall|j: int| 0 <= j < m + 1 implies #[trigger] logical_j(row, ks2, pos2, j, ex) by {
        if j < m { assert(logical_j(row, ks, pos, j, ex)); }
    }
}
""".replace("%(X)s", "t") + """
pub proof fn push_advance_n(row: Seq<grammar::LogicalOperand>, c0: Seq<dr::Operand>, c1: Seq<dr::Operand>, base: int, ks: Seq<int>, ends: Seq<int>, pos: Seq<int>, m: int, ex: bool)
    requires conforms_n(row, c0, base, ks, ends, pos, m, ex), end_of(base, ends) == c0.len(), ext(c0, c1), m < row.len(),
        row[m].quantifier != GOpCount::ZeroOrMore, !is_res(row[m].kind), chunk_ok_n(row[m].kind, c1, c0.len() as int, c1.len() as int),
    ensures conforms_n(row, c1, base, ks.push(m), ends.push(c1.len() as int), pos.push(ks.len() as int), m + 1, ex),
        end_of(base, ends.push(c1.len() as int)) == c1.len(),
{
    conforms_n_ext(row, c0, c1, base, ks, ends, pos, m, ex);
    let ks2 = ks.push(m); let ends2 = ends.push(c1.len() as int); let pos2 = pos.push(ks.len() as int);
    assert forall|i: int| 0 <= i < ks2.len() implies #[trigger] chunk_i_n(row, c1, base, ks2, ends2, m + 1, i) by {
        if i < ks.len() { assert(chunk_i_n(row, c1, base, ks, ends, m, i)); assert(start_of(base, ends2, i) == start_of(base, ends, i)); }
        else { assert(start_of(base, ends2, i) == c0.len()); }
    }
    assert forall|j: int| 0 <= j < m + 1 implies #[trigger] logical_j(row, ks2, pos2, j, ex) by {
        if j < m { assert(logical_j(row, ks, pos, j, ex)); }
    }
}
""")
    # stay (variadic) and skip (result id / absent optional) lemmas for both flavours
    for X in ("t", "n"):
        out.append("""// a further chunk of the variadic logical operand m (m is not left behind)
pub proof fn push_stay_%(X)s(row: Seq<grammar::LogicalOperand>, c0: Seq<dr::Operand>, c1: Seq<dr::Operand>, base: int, ks: Seq<int>, ends: Seq<int>, pos: Seq<int>, m: int, ex: bool)
    requires conforms_%(X)s(row, c0, base, ks, ends, pos, m, ex), end_of(base, ends) == c0.len(), ext(c0, c1), m < row.len(),
        row[m].quantifier == GOpCount::ZeroOrMore, !is_res(row[m].kind), chunk_ok_%(X)s(row[m].kind, c1, c0.len() as int, c1.len() as int),
    ensures conforms_%(X)s(row, c1, base, ks.push(m), ends.push(c1.len() as int), pos, m, ex),
        end_of(base, ends.push(c1.len() as int)) == c1.len(),
{
    conforms_%(X)s_ext(row, c0, c1, base, ks, ends, pos, m, ex);
    let ks2 = ks.push(m); let ends2 = ends.push(c1.len() as int);
    assert forall|i: int| 0 <= i < ks2.len() implies #[trigger] chunk_i_%(X)s(row, c1, base, ks2, ends2, m, i) by {
        if i < ks.len() { assert(chunk_i_%(X)s(row, c1, base, ks, ends, m, i)); assert(start_of(base, ends2, i) == start_of(base, ends, i)); }
        else { assert(start_of(base, ends2, i) == c0.len()); }
    }
    assert forall|j: int| 0 <= j < m implies #[trigger] logical_j(row, ks2, pos, j, ex) by { assert(logical_j(row, ks, pos, j, ex)); }
}
// logical operand m is left behind without a chunk: a result id, or an optional / variadic operand with the words used up;
// `done`: the logical operand already has chunks (variadic)
pub proof fn skip_%(X)s(row: Seq<grammar::LogicalOperand>, c: Seq<dr::Operand>, base: int, ks: Seq<int>, ends: Seq<int>, pos: Seq<int>, m: int, ex: bool)
    requires conforms_%(X)s(row, c, base, ks, ends, pos, m, ex), m < row.len(),
        row[m].quantifier != GOpCount::ZeroOrMore, is_res(row[m].kind) || (row[m].quantifier != GOpCount::One && ex),
    ensures conforms_%(X)s(row, c, base, ks, ends, pos.push(-1), m + 1, ex),
{
    let pos2 = pos.push(-1);
    assert forall|i: int| 0 <= i < ks.len() implies #[trigger] chunk_i_%(X)s(row, c, base, ks, ends, m + 1, i) by { assert(chunk_i_%(X)s(row, c, base, ks, ends, m, i)); }
    assert forall|j: int| 0 <= j < m + 1 implies #[trigger] logical_j(row, ks, pos2, j, ex) by { if j < m { assert(logical_j(row, ks, pos, j, ex)); } }
}
// the variadic logical operand m is left behind after its chunks (the words are used up)
pub proof fn leave_variadic_%(X)s(row: Seq<grammar::LogicalOperand>, c: Seq<dr::Operand>, base: int, ks: Seq<int>, ends: Seq<int>, pos: Seq<int>, m: int, ex: bool)
    requires conforms_%(X)s(row, c, base, ks, ends, pos, m, ex), m < row.len(), row[m].quantifier == GOpCount::ZeroOrMore, !is_res(row[m].kind),
        (ks.len() > 0 && ks[ks.len() - 1] == m) || ex,
    ensures conforms_%(X)s(row, c, base, ks, ends, pos.push(if ks.len() > 0 && ks[ks.len() - 1] == m { ks.len() - 1 } else { -1 }), m + 1, ex),
{
    let p = if ks.len() > 0 && ks[ks.len() - 1] == m { ks.len() - 1 } else { -1 };
    let pos2 = pos.push(p);
    assert forall|i: int| 0 <= i < ks.len() implies #[trigger] chunk_i_%(X)s(row, c, base, ks, ends, m + 1, i) by { assert(chunk_i_%(X)s(row, c, base, ks, ends, m, i)); }
    assert forall|j: int| 0 <= j < m + 1 implies #[trigger] logical_j(row, ks, pos2, j, ex) by { if j < m { assert(logical_j(row, ks, pos, j, ex)); } }
}""".replace("%(X)s", X))
    out.append("""// a chunk proved for the vector `v` alone holds for `c0 + v` at the shifted position
pub proof fn chunk_shift_n(k: GOpKind, c0: Seq<dr::Operand>, v: Seq<dr::Operand>)
    requires chunk_ok_n(k, v, 0, v.len() as int),
    ensures chunk_ok_n(k, c0 + v, c0.len() as int, (c0 + v).len() as int), chunk_ok_t(k, c0 + v, c0.len() as int, (c0 + v).len() as int),
{
    assert((c0 + v)[c0.len() as int] == v[0]);
    if v.len() >= 2 { assert((c0 + v)[c0.len() as int + 1] == v[1]); }
}
pub proof fn conforms_n_shift(row: Seq<grammar::LogicalOperand>, c0: Seq<dr::Operand>, v: Seq<dr::Operand>, base: int, ks: Seq<int>, ends: Seq<int>, pos: Seq<int>, m: int, ex: bool)
    requires conforms_n(row, v, base, ks, ends, pos, m, ex),
    ensures conforms_n(row, c0 + v, base + c0.len(), ks, ends.map_values(|x: int| x + c0.len()), pos, m, ex),
        end_of(base + c0.len(), ends.map_values(|x: int| x + c0.len())) == end_of(base, ends) + c0.len(),
{
    let w = c0 + v; let ends2 = ends.map_values(|x: int| x + c0.len()); let d = c0.len() as int;
    assert forall|i: int| 0 <= i < ks.len() implies #[trigger] chunk_i_n(row, w, base + d, ks, ends2, m, i) by {
        assert(chunk_i_n(row, v, base, ks, ends, m, i));
        let s = start_of(base, ends, i); let e = ends[i];
        assert(start_of(base + d, ends2, i) == s + d);
        assert(ends2[i] == e + d);
        assert(w[s + d] == v[s]);
        if e >= s + 2 { assert(w[s + d + 1] == v[s + 1]); }
    }
    assert forall|j: int| 0 <= j < m implies #[trigger] logical_j(row, ks, pos, j, ex) by { assert(logical_j(row, ks, pos, j, ex)); }
}
// the vector returned by parse_spec_constant_op, appended to the operands parsed so far, is one OpSpecConstantOp chunk
pub proof fn spec_op_chunk(op: spirv::Op, c0: Seq<dr::Operand>, v: Seq<dr::Operand>, ex: bool)
    requires v.len() >= 1, v[0] == dr::Operand::LiteralSpecConstantOpInteger(op), nested_ok(op, v, 1, v.len() as int, ex),
    ensures chunk_ok_t(GOpKind::LiteralSpecConstantOpInteger, c0 + v, c0.len() as int, (c0 + v).len() as int),
{
    let row = grammar::row_operands(op);
    let (ks, ends, pos, m) = choose|ks: Seq<int>, ends: Seq<int>, pos: Seq<int>, m: int|
        #[trigger] conforms_n(row, v, 1, ks, ends, pos, m, ex) && end_of(1, ends) == v.len() && stop_ok(row, m, ex);
    conforms_n_shift(row, c0, v, 1, ks, ends, pos, m, ex);
    let ends2 = ends.map_values(|x: int| x + c0.len());
    conforms_weaken(row, c0 + v, 1 + c0.len() as int, ks, ends2, pos, m, ex, true);
    assert(stop_ok(row, m, true));
    assert((c0 + v)[c0.len() as int] == v[0]);
    assert(nested_ok(op, c0 + v, c0.len() as int + 1, (c0 + v).len() as int, true));
}""")
    return "\n".join(out)
