"""units `table_core`, `table_glsl`, `table_opencl` — grammar/syntax.rs lookups + the generated
tables (C09; the table lemmas are also used by parser_core / builder units).

R13: `static T: &[Instruction<'static>] = &[ inst!(..), … ];` -> `spec fn t() -> Seq<GInst> { seq![ … ] }`
     with `inst!`/`ext_inst!` re-declared to build the spec record; the row text is the real text,
     except that string literals (extension names) are replaced by interned integers.
     The exec static is reached through `table_ref()`, a contract-only accessor whose postcondition
     says its view is `t()` — "the static's run-time value is its initializer" (assumed by
     construction, listed in the evidence).
R7:  `TABLE.iter().find(closure)` -> `std_find(table_ref(), closure)` with the repository's own
     closure, specified through the closure's contract (first element whose call returns true).
"""
import json
import os
import re
from .common import (Source, Piece, Gen, Lost, HEADER, SPIRV, ENUM_DERIVE, ENUM_EQ, enum_variants,
                     alias_consts, count_clauses)
from .spirv_enums import ranges

SYNTAX = "rspirv/grammar/syntax.rs"
TABLES = {
    "core": {"file": "rspirv/grammar/autogen_table.rs", "static": "INSTRUCTION_TABLE", "macro": "inst",
             "ty": "CoreInstructionTable", "enum": "Op", "rowty": "Instruction"},
    "glsl": {"file": "rspirv/grammar/autogen_glsl_std_450.rs", "static": "GLSL_STD_450_INSTRUCTION_TABLE",
             "macro": "ext_inst", "ty": "GlslStd450InstructionTable", "enum": "GLOp", "rowty": "ExtendedInstruction"},
    "opencl": {"file": "rspirv/grammar/autogen_opencl_std_100.rs", "static": "OPENCL_STD_100_INSTRUCTION_TABLE",
               "macro": "ext_inst", "ty": "OpenCLStd100InstructionTable", "enum": "CLOp", "rowty": "ExtendedInstruction"},
}
SNAPSHOT = os.path.join(os.path.dirname(__file__), "..", "oracle", "grammar_snapshot.json")


def split_top(text, sep=","):
    out, depth, cur = [], 0, ""
    i = 0
    while i < len(text):
        ch = text[i]
        if ch == '"':
            j = i + 1
            while text[j] != '"':
                j += 2 if text[j] == "\\" else 1
            cur += text[i:j + 1]
            i = j + 1
            continue
        if ch in "([{":
            depth += 1
        elif ch in ")]}":
            depth -= 1
        if ch == sep and depth == 0:
            out.append(cur.strip())
            cur = ""
        else:
            cur += ch
        i += 1
    if cur.strip():
        out.append(cur.strip())
    return out


def parse_rows(which):
    """rows of a table as data: [{name, opcode(for ext), caps, exts, operands:[(kind,quant)]}]
    plus the static item and the byte span of the initializer list."""
    info = TABLES[which]
    src = Source.get(info["file"])
    st = src.find("static", info["static"])
    t = st.core_text
    m = re.search(r"=\s*&\s*\[(.*)\]\s*;\s*$", t, re.S)
    if not m:
        raise Lost("%s: static initializer has unexpected shape" % info["static"])
    body = m.group(1)
    calls = split_top(body)
    rows = []
    for c in calls:
        mm = re.match(r"^(\w+)\s*!\s*\((.*)\)$", c, re.S)
        if not mm or mm.group(1) != info["macro"]:
            raise Lost("%s: unexpected row %r" % (info["static"], c[:60]))
        args = split_top(mm.group(2))
        if info["macro"] == "inst":
            if len(args) != 4:
                raise Lost("inst! row with %d args: %r" % (len(args), c[:60]))
            name, caps, exts, ops = args
            num = None
        else:
            if len(args) != 5:
                raise Lost("ext_inst! row with %d args: %r" % (len(args), c[:60]))
            name, num, caps, exts, ops = args
            num = int(re.sub(r"u32$", "", num).replace("_", ""), 0)

        def lst(x):
            x = x.strip()
            if not (x.startswith("[") and x.endswith("]")):
                raise Lost("row %s: list expected, got %r" % (name, x[:40]))
            return split_top(x[1:-1])
        operands = []
        for o in lst(ops):
            mo = re.match(r"^\(\s*(\w+)\s*,\s*(\w+)\s*\)$", o)
            if not mo:
                raise Lost("row %s: operand %r" % (name, o))
            operands.append((mo.group(1), mo.group(2)))
        rows.append({"name": name, "opcode": num, "caps": lst(caps),
                     "exts": [e.strip().strip('"') for e in lst(exts)], "operands": operands})
    return rows, st, body


def snapshot_now():
    out = {}
    for w in TABLES:
        rows, _, _ = parse_rows(w)
        out[w] = rows
    return out


SPEC_TYPES = r"""
// ---- spec view of a table row -------------------------------------------------------------------
pub struct GInst {
    pub opcode: %(OPTY)s,
    pub caps: Seq<spirv::Capability>,
    pub exts: Seq<int>,          // extension names, interned by the extractor (R13)
    pub operands: Seq<LogicalOperand>,
}
// R13: the real macro's shape, producing the spec record (opname = stringify!($op) holds by the
// real macro itself: the name is the same token as the opcode)
%(MACRO)s

// ---- well-formedness of a row (C09) ---------------------------------------------------------------
pub open spec fn is_opt(q: OperandQuantifier) -> bool { q == OperandQuantifier::ZeroOrOne || q == OperandQuantifier::ZeroOrMore }
// result type only at index 0; result id only at index 0 or directly after the result type
pub open spec fn wf_ids(o: Seq<LogicalOperand>, i: int) -> bool
    decreases o.len() - i,
{
    if i >= o.len() || i < 0 { true } else {
        (o[i].kind == OperandKind::IdResultType ==> (i == 0 && o[i].quantifier == OperandQuantifier::One))
        && (o[i].kind == OperandKind::IdResult ==> (o[i].quantifier == OperandQuantifier::One
                && (i == 0 || (i == 1 && o[0].kind == OperandKind::IdResultType))))
        && wf_ids(o, i + 1)
    }
}
// no required operand after an optional one; a variadic operand only last
pub open spec fn wf_quant(o: Seq<LogicalOperand>, i: int, seen_opt: bool) -> bool
    decreases o.len() - i,
{
    if i >= o.len() || i < 0 { true } else {
        (o[i].quantifier == OperandQuantifier::One ==> !seen_opt)
        && (o[i].quantifier == OperandQuantifier::ZeroOrMore ==> i == o.len() - 1)
        && wf_quant(o, i + 1, seen_opt || is_opt(o[i].quantifier))
    }
}
pub open spec fn wf_row(r: GInst) -> bool { wf_ids(r.operands, 0) && wf_quant(r.operands, 0, false) }
"""

# facts the parser relies on at its assert!/expect/index sites (C04), checked per row of the core table
SPECIAL_SPEC = r"""
// context-dependent literals occur only in OpConstant/OpSpecConstant after a leading result type;
// (literal, label) pairs occur only in OpSwitch after a leading required IdRef (the selector)
pub open spec fn special_from(o: Seq<LogicalOperand>, op: spirv::Op, j: int) -> bool
    decreases o.len() - j,
{
    if j < 0 || j >= o.len() { true } else {
        (o[j].kind == OperandKind::LiteralContextDependentNumber ==> ((op == spirv::Op::Constant || op == spirv::Op::SpecConstant)
            && j >= 1 && o[0].kind == OperandKind::IdResultType && o[0].quantifier == OperandQuantifier::One))
        && (o[j].kind == OperandKind::PairLiteralIntegerIdRef ==> (op == spirv::Op::Switch
            && j >= 1 && o[0].kind == OperandKind::IdRef && o[0].quantifier == OperandQuantifier::One))
        && special_from(o, op, j + 1)
    }
}
pub proof fn special_at(o: Seq<LogicalOperand>, op: spirv::Op, lo: int, j: int)
    requires special_from(o, op, lo), 0 <= lo <= j < o.len(),
    ensures
        o[j].kind == OperandKind::LiteralContextDependentNumber ==> ((op == spirv::Op::Constant || op == spirv::Op::SpecConstant)
            && j >= 1 && o[0].kind == OperandKind::IdResultType && o[0].quantifier == OperandQuantifier::One),
        o[j].kind == OperandKind::PairLiteralIntegerIdRef ==> (op == spirv::Op::Switch
            && j >= 1 && o[0].kind == OperandKind::IdRef && o[0].quantifier == OperandQuantifier::One),
    decreases j - lo,
{ if lo < j { special_at(o, op, lo + 1, j); } }
"""

MACRO_INST = """macro_rules! inst {
    ($op:ident, [$( $cap:ident ),*], [$( $ext:expr ),*], [$( ($kind:ident, $quant:ident) ),*]) => {
        GInst {
            opcode: spirv::Op::$op,
            caps: seq![ $( spirv::Capability::$cap ),* ],
            exts: seq![ $( $ext ),* ],
            operands: seq![ $( LogicalOperand { kind: OperandKind::$kind, quantifier: OperandQuantifier::$quant } ),* ],
        }
    }
}"""
MACRO_EXT = """macro_rules! ext_inst {
    ($opname:ident, $opcode:expr, [$( $cap:ident ),*], [$( $ext:expr ),*], [$( ($kind:ident, $quant:ident) ),*]) => {
        GInst {
            opcode: $opcode,
            caps: seq![ $( spirv::Capability::$cap ),* ],
            exts: seq![ $( $ext ),* ],
            operands: seq![ $( LogicalOperand { kind: OperandKind::$kind, quantifier: OperandQuantifier::$quant } ),* ],
        }
    }
}"""


def emit_spirv_for_tables(g, enums):
    """mod spirv with the enums a table unit needs (real declarations, O1)."""
    src = Source.get(SPIRV)
    g.raw("pub mod spirv {\nuse vstd::prelude::*;\npub type Word = u32;")
    for T in enums:
        e = src.find("enum", T)
        vs = enum_variants(e)
        g.raw(ENUM_DERIVE.rstrip("\n"))
        g.emit(Piece(e), name="enum " + T, under_contract=False)
        g.raw(ENUM_EQ % {"T": T})
        rs = ranges([v for _, v in vs])
        cond = " || ".join(("n == %d" % a) if a == b else ("(%d <= n && n <= %d)" % (a, b)) for a, b in rs)
        g.raw("pub open spec fn declared_%s(n: u32) -> bool { %s }" % (T, cond))
        g.raw("pub proof fn variants_declared_%s(v: %s) ensures declared_%s(v as u32) {}" % (T, T, T))
    g.raw("} // mod spirv")


def emit_grammar_types(g, core=True):
    src = Source.get(SYNTAX)
    tsrc = Source.get(TABLES["core"]["file"])
    g.raw("#[derive(Clone, Copy, PartialEq, Eq)]")
    g.emit(Piece(tsrc.find("enum", "OperandKind")), name="grammar::OperandKind", under_contract=False)
    g.raw(ENUM_EQ % {"T": "OperandKind"})
    g.raw("#[derive(Clone, Copy, PartialEq, Eq)]")
    g.emit(Piece(src.find("enum", "OperandQuantifier")), name="grammar::OperandQuantifier", under_contract=False)
    g.raw(ENUM_EQ % {"T": "OperandQuantifier"})
    g.emit(Piece(src.find("struct", "LogicalOperand")), name="grammar::LogicalOperand", under_contract=False)
    if core:
        g.emit(Piece(src.find("struct", "Instruction")), name="grammar::Instruction", under_contract=False)
    else:
        g.emit(Piece(src.find("struct", "ExtendedInstruction")), name="grammar::ExtendedInstruction", under_contract=False)


CH = 100


def bst(pairs, var, default, indent="    "):
    """balanced decision tree over sorted (key, value-text) pairs: deep if-else chains (787 levels)
    make the installed Verus front end take tens of minutes; depth here is log2(n)."""
    pairs = sorted(pairs)

    def rec(lo, hi, ind):
        if hi - lo <= 4:
            out = ""
            for k, v in pairs[lo:hi]:
                out += "if %s == %d { %s } else " % (var, k, v)
            return out + "{ %s }" % default
        mid = (lo + hi) // 2
        return "if %s < %d {\n%s%s\n%s} else {\n%s%s\n%s}" % (
            var, pairs[mid][0], ind + "    ", rec(lo, mid, ind + "    "), ind, ind + "    ", rec(mid, hi, ind + "    "), ind)
    return rec(0, len(pairs), indent)


def snapshot_encoders(g):
    kinds = [n for n, _ in enum_variants(Source.get(TABLES["core"]["file"]).find("enum", "OperandKind"))]
    kid = {k: i for i, k in enumerate(kinds)}
    g.raw("pub open spec fn kind_id(k: OperandKind) -> int {\n    match k {\n%s\n    }\n}" % "\n".join(
        "        OperandKind::%s => %d," % (k, i) for k, i in kid.items()))
    g.raw("pub open spec fn quant_id(q: OperandQuantifier) -> int { match q { OperandQuantifier::One => 0, "
          "OperandQuantifier::ZeroOrOne => 1, OperandQuantifier::ZeroOrMore => 2 } }")
    g.raw("pub open spec fn enc_ops(o: Seq<LogicalOperand>, i: int) -> Seq<int> decreases o.len() - i {\n"
          "    if i < 0 || i >= o.len() { Seq::empty() } else { seq![kind_id(o[i].kind) * 4 + quant_id(o[i].quantifier)] + enc_ops(o, i + 1) }\n}")
    g.raw("pub open spec fn enc_caps(c: Seq<spirv::Capability>, i: int) -> Seq<int> decreases c.len() - i {\n"
          "    if i < 0 || i >= c.len() { Seq::empty() } else { seq![(c[i] as u32) as int] + enc_caps(c, i + 1) }\n}")
    return kid


def build_table(which, tier="quick", must_fail=False):
    info = TABLES[which]
    unit = "table_" + which
    g = Gen(unit if not must_fail else unit + "_mustfail")
    rows, st, body = parse_rows(which)
    N = len(rows)
    g.n_rows = N
    core = which == "core"
    OPTY = "spirv::Op" if core else "u32"
    E = info["enum"]
    MAXR = int(os.environ.get("VERIF_TABLE_MAXROWS", "0"))  # experiments only
    g.raw(HEADER)
    g.raw("verus! {")
    emit_spirv_for_tables(g, ["Capability", E])
    g.raw("pub mod grammar {\nuse vstd::prelude::*;\nuse crate::spirv;")
    emit_grammar_types(g, core)
    g.raw(SPEC_TYPES % {"OPTY": OPTY, "MACRO": MACRO_INST if core else MACRO_EXT})
    if core:
        g.raw(SPECIAL_SPEC)
    # ---- R13: the table in spec mode (real row text; string literals interned) ---------------------
    interned = {}

    def intern(m):
        s_ = m.group(0)
        if s_ not in interned:
            interned[s_] = len(interned)
        return "%dint" % interned[s_]
    body_spec = re.sub(r'"(?:[^"\\]|\\.)*"', intern, body)
    row_texts = split_top(body_spec)
    if len(row_texts) != N:
        raise Lost("%s: %d rows parsed, %d row texts" % (info["static"], N, len(row_texts)))
    if MAXR:
        rows, row_texts, N = rows[:MAXR], row_texts[:MAXR], MAXR
    num_of = dict(enum_variants(Source.get(SPIRV).find("enum", E)))
    snap = json.load(open(SNAPSHOT)).get(which) if os.path.exists(SNAPSHOT) else None
    kid = snapshot_encoders(g)
    qid = {"One": 0, "ZeroOrOne": 1, "ZeroOrMore": 2}
    capv = dict(enum_variants(Source.get(SPIRV).find("enum", "Capability")))
    ext_ids = {k.strip('"'): v for k, v in interned.items()}

    def ext_id(e):
        if e not in ext_ids:
            ext_ids[e] = len(ext_ids) + 100000
        return ext_ids[e]
    # position function, generated from the row order (numbers from the enum declaration, O1)
    if core:
        pairs = [(num_of.get(r["name"], -1), i) for i, r in enumerate(rows)]
    else:
        pairs = [(r["opcode"], i) for i, r in enumerate(rows)]
    first_num = {}
    for num, i in pairs:
        first_num.setdefault(num, i)
    g.raw("// row index of each opcode NUMBER (numbers from the %s declaration, O1; order from the rows)\n"
          "#[verifier::opaque]\npub open spec fn pos_num(n: u32) -> int {\n    %s\n}" % (E, bst([(num, "%dint" % i) for num, i in first_num.items()], "n", "-1int")))
    if core:
        vs_ = enum_variants(Source.get(SPIRV).find("enum", "Op"))
        g.raw("// O1: number of each opcode, read off `pub enum Op`; proved equal to the cast below\n"
              "#[verifier::opaque]\npub open spec fn op_num(op: spirv::Op) -> u32 {\n    match op {\n%s\n    }\n}" % "\n".join(
                  "        spirv::Op::%s => %du32," % (n_, v) for n_, v in vs_))
        g.raw("pub proof fn op_num_is_cast(op: spirv::Op) ensures op_num(op) == op as u32, (op as u32) < 0x10000, (op as u16) as u32 == op as u32 { reveal(op_num); }")
        g.raw("// the test the real lookup closure performs, hidden from the big queries\n"
              "#[verifier::opaque]\npub open spec fn hit16(op: spirv::Op, n: u16) -> bool { (op as u16) == n }\n"
              "pub proof fn hit16_is(op: spirv::Op, n: u16) ensures hit16(op, n) <==> op_num(op) == n as u32 { reveal(hit16); op_num_is_cast(op); }")
        g.raw("pub open spec fn numof(r: GInst) -> u32 { op_num(r.opcode) }")
    else:
        g.raw("pub open spec fn numof(r: GInst) -> u32 { r.opcode }")
    # ---- one spec fn per row (real row text) + interpreter-checked lemmas per row ---------------------
    g.raw("// R13: rows of `static %s` (%s:%d), %d rows; row_<i>() is the real text of initializer element i"
          % (info["static"], info["file"], st.line, N))
    if must_fail:
        row_texts, rows_l = row_texts[:2], rows[:2]
    else:
        rows_l = rows
    start_line = len(g.lines) + 1
    for i, (rt, r) in enumerate(zip(row_texts, rows_l)):
        if i % CH == 0:
            # one module per CH rows: Verus verifies modules in parallel
            g.raw("pub mod rows_%d {\nuse vstd::prelude::*;\nuse crate::spirv;\nuse super::*;" % (i // CH))
        g.raw("pub closed spec fn row_%d() -> GInst {\n    %s\n}" % (i, rt))
        ens = []
        ens.append(("row_%d().opcode == spirv::Op::%s" % (i, r["name"])) if core else ("row_%d().opcode == %du32" % (i, r["opcode"])))
        ens.append("wf_row(row_%d())" % i)
        if core:
            ens.append("special_from(row_%d().operands, row_%d().opcode, 0)" % (i, i))
        if must_fail and i == 1:
            ens.append("false")
        g.raw("// C09 row %d (%s): opcode as parsed, well-formedness\npub proof fn row_ok_%d()\n    ensures\n%s\n{\n%s\n}"
              % (i, r["name"], i, "\n".join("        %s," % e for e in ens),
                 "\n".join("    assert(%s) by(compute_only);" % e for e in ens if e != "false")))
        if snap is not None and not must_fail:
            ens = []
            if i < len(snap):
                sr = snap[i]
                ops = [kid.get(k, 999) * 4 + qid.get(q, 3) for k, q in sr["operands"]]
                caps = [capv.get(c, -1) for c in sr["caps"]]
                exts = [ext_id(e) for e in sr["exts"]]
                if core:
                    ens.append("row_%d().opcode == spirv::Op::%s" % (i, sr["name"]) if sr["name"] in num_of
                               else "false /* snapshot opcode %s is not declared */" % sr["name"])
                else:
                    ens.append("row_%d().opcode as int == %dint" % (i, sr["opcode"]))
                ens.append("enc_ops(row_%d().operands, 0) == seq![%s]" % (i, ", ".join("%dint" % x for x in ops)) if ops
                           else "row_%d().operands.len() == 0" % i)
                ens.append("enc_caps(row_%d().caps, 0) == seq![%s]" % (i, ", ".join("%dint" % x for x in caps)) if caps
                           else "row_%d().caps.len() == 0" % i)
                ens.append("row_%d().exts == seq![%s]" % (i, ", ".join("%dint" % x for x in exts)) if exts
                           else "row_%d().exts.len() == 0" % i)
            else:
                ens.append("false /* row %d is not in the O4 snapshot */" % i)
            g.raw("// C09 row %d (%s) equals the O4 snapshot (opcode, kinds+quantifiers, capabilities, extensions)\n"
                  "pub proof fn row_snapshot_%d()\n    ensures\n%s\n{\n%s\n}"
                  % (i, r["name"], i, "\n".join("        %s," % e for e in ens),
                     "\n".join("    assert(%s) by(compute_only);" % e for e in ens if not e.startswith("false"))))
        if i % CH == CH - 1 or i == len(rows_l) - 1:
            c0 = (i // CH) * CH
            if not must_fail:
                g.raw("pub open spec fn row_chunk_%d(i: int) -> GInst {\n    %s\n}" % (
                    c0, bst([(k, "row_%d()" % k) for k in range(c0, i + 1)], "i", "arbitrary()")))
            g.raw("} // mod rows_%d\npub use self::rows_%d::*;" % (i // CH, i // CH))
    g.items.append({"name": "static " + info["static"] + " (rows)", "kind": "static", "file": info["file"],
                    "src_line": st.line, "src_end": st.end_line, "sha256": st.sha(), "gen_start": start_line,
                    "gen_end": len(g.lines), "linemap": [st.line for _ in range(len(g.lines) - start_line + 1)],
                    "under_contract": True, "trusted": False})
    g.rewrites.append({"rule": "R13", "file": info["file"], "line": st.line,
                       "before": "static %s: &[..] = &[ %d rows ];" % (info["static"], N),
                       "after": "spec fn row_<i>() per row (same row texts; %d string literals interned); table() = Seq::new(%d, row)" % (len(interned), N)})
    if must_fail:
        g.raw("} // mod grammar\n} // verus!\nfn main() {}")
        return g
    chunks = list(range(0, N, CH))
    g.raw("pub open spec fn row(i: int) -> GInst {\n    %s{ arbitrary() }\n}" % "".join(
        "if %d <= i < %d { row_chunk_%d(i) } else " % (c, min(c + CH, N), c) for c in chunks))
    g.raw("pub open spec fn table() -> Seq<GInst> { Seq::new(%dnat, |i: int| row(i)) }" % N)
    g.raw("pub proof fn table_len() ensures table().len() == %d {}" % N)
    if snap is not None:
        g.raw("pub proof fn snapshot_len() ensures %d == %d /* rows in tree == rows in O4 snapshot */ {}" % (N, len(snap)))
    rowok = "pos_num(numof(row(i))) == i && wf_row(row(i)) && spirv::declared_%s(numof(row(i)))" % E
    if core:
        rowok += " && special_from(row(i).operands, row(i).opcode, 0)"
    CS = 25
    for c in range(0, N, CS):
        hi = min(c + CS, N)
        ks = range(c, hi)
        nums = ", ".join("pos_num(%du32) == %d" % (pairs[k][0], k) for k in ks if first_num.get(pairs[k][0]) == k)
        dup = [k for k in ks if first_num.get(pairs[k][0]) != k]
        if dup:
            nums += ", false /* rows %s repeat an opcode of an earlier row */" % dup
        opn = ""
        if core:
            opn = ("pub proof fn op_nums_%d() ensures %s { reveal(op_num); }\n" % (
                c, ", ".join("op_num(spirv::Op::%s) == %du32" % (rows[k]["name"], pairs[k][0]) for k in ks)))
        g.raw("pub mod facts_%d { use vstd::prelude::*; use crate::spirv; use super::*;\n"
              "pub proof fn pos_nums_%d() ensures %s { reveal(pos_num); }\n%s"
              "pub proof fn row_facts_%d_%d(i: int)\n    requires %d <= i < %d,\n    ensures %s,\n{\n    pos_nums_%d();%s\n%s\n}\n}\npub use self::facts_%d::*;" % (
                  c, c, nums, opn, c, hi, c, hi, rowok, c, (" op_nums_%d();" % c) if core else "",
                  "\n".join("    if i == %d { row_ok_%d(); }" % (k, k) for k in ks), c))
    g.raw("// C09 (i)+(iv): for every row index\npub proof fn row_facts(i: int)\n    requires 0 <= i < %d,\n"
          "    ensures %s, table()[i] == row(i),\n{\n%s\n}" % (N, rowok, "\n".join(
              "    if %d <= i < %d { row_facts_%d_%d(i); }" % (c, min(c + CS, N), c, min(c + CS, N)) for c in range(0, N, CS))))
    g.raw("""// C09 (i): no two rows share an opcode
pub proof fn rows_unique(i: int, j: int)
    requires 0 <= i < %d, 0 <= j < %d, table()[i].opcode == table()[j].opcode,
    ensures i == j,
{ row_facts(i); row_facts(j); }
""" % (N, N))
    # every declared number has a row
    opnum = "numof(row(pos_num(n)))"
    declared = sorted(num_of.values())
    dchunks = [declared[c:c + CS] for c in range(0, len(declared), CS)]
    for ci, part in enumerate(dchunks):
        calls = sorted(set((first_num[x] // CS) * CS for x in part if x in first_num))
        g.raw("pub mod decl_%d { use vstd::prelude::*; use crate::spirv; use super::*;\n"
              "pub proof fn declared_rows_%d(n: u32)\n    requires %d <= n <= %d, spirv::declared_%s(n),\n    ensures 0 <= pos_num(n) < %d, %s == n,\n{\n    %s\n%s\n}\n}\npub use self::decl_%d::*;" % (
                  ci, ci, part[0], part[-1], E, N, opnum,
                  " ".join("pos_nums_%d();%s" % (c_, (" op_nums_%d();" % c_) if core else "") for c_ in calls),
                  "\n".join("    if n == %d { row_ok_%d(); }" % (x, first_num[x]) if x in first_num else
                             "    if n == %d { assert(false); /* no row for declared number %d */ }" % (x, x) for x in part), ci))
    g.raw("// C09 (ii): every declared %s number has its row\npub proof fn lemma_declared_has_row(n: u32)\n"
          "    requires spirv::declared_%s(n),\n    ensures 0 <= pos_num(n) < %d, %s == n, table()[pos_num(n)] == row(pos_num(n)),\n{\n%s\n}" % (
              E, E, N, opnum, "\n".join("    if %d <= n <= %d { declared_rows_%d(n); }" % (part[0], part[-1], ci)
                                         for ci, part in enumerate(dchunks))))
    g.raw("// C09: every %s value has its row\npub proof fn table_total(op: spirv::%s)\n"
          "    ensures 0 <= pos_num(op as u32) < %d, numof(table()[pos_num(op as u32)]) == op as u32,\n"
          "{ spirv::variants_declared_%s(op); lemma_declared_has_row(op as u32); }" % (E, E, N, E))
    emit_lookups(g, which, N)
    g.raw("} // mod grammar")
    g.raw("} // verus!")
    g.raw("fn main() {}")
    return g


FIND_STUB = r"""
// R7: `slice.iter().find(c)` — specified only through the closure's own contract
#[verifier::external_body]
pub fn std_find<'a, T, F: Fn(&&'a T) -> bool>(v: &'a [T], f: F) -> (r: Option<&'a T>)
    requires forall|i: int| 0 <= i < v@.len() ==> call_requires(f, (&&#[trigger] v@[i],)),
    ensures
        r matches Some(e) ==> (exists|k: int| 0 <= k < v@.len() && *e == #[trigger] v@[k]
            && call_ensures(f, (&&v@[k],), true)
            && forall|j: int| 0 <= j < k ==> call_ensures(f, (&&#[trigger] v@[j],), false)),
        r is None ==> forall|j: int| 0 <= j < v@.len() ==> call_ensures(f, (&&#[trigger] v@[j],), false),
{ v.iter().find(f) }
// `.expect(msg)` on an Option: std panics exactly when it is None
pub fn expect_some<T>(o: Option<T>, msg: &str) -> (r: T)
    requires o is Some,
    ensures Some(r) == o,
{ o.unwrap() }
"""


def emit_lookups(g, which, N):
    info = TABLES[which]
    core = which == "core"
    src = Source.get(SYNTAX)
    rowty = info["rowty"]
    E = info["enum"]
    g.raw(FIND_STUB)
    g.raw("""// R13: run-time value of `static %(S)s` = its initializer (assumed by construction)
pub open spec fn row_view(r: %(R)s<'static>) -> GInst {
    GInst { opcode: r.opcode, caps: r.capabilities@, exts: row_exts(r), operands: r.operands@ }
}
pub uninterp spec fn row_exts(r: %(R)s<'static>) -> Seq<int>;
pub uninterp spec fn static_rows() -> Seq<%(R)s<'static>>;
#[verifier::external_body]
pub proof fn static_rows_are_table()
    ensures static_rows().len() == table().len(),
        forall|i: int| 0 <= i < static_rows().len() ==> row_view(#[trigger] static_rows()[i]) == table()[i],
{}
#[verifier::external_body]
pub fn table_ref() -> (r: &'static [%(R)s<'static>])
    ensures r@ == static_rows(),
{ unimplemented!() }
""" % {"S": info["static"], "R": rowty})
    g.emit(Piece(src.find("struct", info["ty"])), name="grammar::" + info["ty"], under_contract=False)
    lk = Piece(src.find("fn", info["ty"] + "::lookup_opcode"))
    gt = Piece(src.find("fn", info["ty"] + "::get"))
    lk.name_result("r")
    gt.name_result("r")
    S = info["static"]
    find_re = r"%s\s*\.iter\(\)\s*\.find\(\|(\w+)\|\s*(.*?)\)\s*\}\s*$" % S
    get_re = r"%s\s*\.iter\(\)\s*\.find\(\|(\w+)\|\s*\((.*?)\)\)\s*\.expect\((\"[^\"]*\")\)\s*\}\s*$" % S
    if core:
        # injectivity of `Op as u32`, through an inverse read off the declaration (O1)
        vs = enum_variants(Source.get(SPIRV).find("enum", "Op"))
        vsn = sorted(vs, key=lambda nv: nv[1])
        first_index = {}
        for i_, r_ in enumerate(parse_rows(which)[0]):
            first_index.setdefault(r_["name"], i_)
        CI = 25
        for ci, c in enumerate(range(0, len(vsn), CI)):
            part = vsn[c:c + CI]
            g.raw("pub mod total_%d { use vstd::prelude::*; use crate::spirv; use super::*;\n"
                  "pub proof fn table_total_op_%d(op: spirv::Op)\n    requires %s,\n"
                  "    ensures 0 <= pos_num(op_num(op)) < %d, row(pos_num(op_num(op))).opcode == op,\n{\n    %s\n    match op {\n%s\n        _ => {}\n    }\n}\n}\npub use self::total_%d::*;" % (
                      ci, ci, " || ".join("op == spirv::Op::%s" % n_ for n_, _ in part), N,
                      " ".join("pos_nums_%d(); op_nums_%d();" % (c_, c_) for c_ in sorted(set((first_index[n_] // 25) * 25 for n_, _ in part if n_ in first_index))),
                      "\n".join("        spirv::Op::%s => { %s }" % (n_, ("row_ok_%d();" % first_index[n_]) if n_ in first_index
                                                                   else "assert(false); /* no row */") for n_, _ in part), ci))
        chunk_of = {}
        for ci, c in enumerate(range(0, len(vsn), CI)):
            for n_, _ in vsn[c:c + CI]:
                chunk_of[n_] = ci
        g.raw("// C09 (ii): looking up by opcode value never fails — every declared opcode has its row\n"
              "pub proof fn table_total_op(op: spirv::Op)\n    ensures 0 <= pos_num(op_num(op)) < %d, table()[pos_num(op_num(op))].opcode == op,\n{\n    match op {\n%s\n    }\n}" % (
                  N, "\n".join("        spirv::Op::%s => { table_total_op_%d(op); }" % (n_, chunk_of[n_]) for n_, _ in vs)))
        g.raw("pub proof fn op_num_small(op: spirv::Op) ensures op_num(op) < 0x10000 { op_num_is_cast(op); }")
        g.raw("// exported to the parser units: the row of every opcode is well-formed and special-kind safe\n"
              "pub proof fn row_shape(op: spirv::Op)\n    ensures ({ let r = table()[pos_num(op_num(op))]; r.opcode == op && wf_row(r) && special_from(r.operands, op, 0) }),\n"
              "{ table_total_op(op); row_facts(pos_num(op_num(op))); }")
        g.raw("""// cast facts of row i, kept out of the lookup queries
pub proof fn row_cast_facts(i: int)
    requires 0 <= i < table().len(),
    ensures numof(table()[i]) < 0x10000, numof(table()[i]) == table()[i].opcode as u32,
        ((table()[i].opcode as u16) as u32) == numof(table()[i]),
        spirv::declared_Op(numof(table()[i])), pos_num(numof(table()[i])) == i,
{ table_len(); row_facts(i); op_num_is_cast(table()[i].opcode); }
""")
        g.raw("""// everything the lookups need to know about element i of the static, as ONE quantified fact
pub open spec fn static_ok(r: Instruction<'static>, i: int) -> bool {
    &&& row_view(r) == table()[i]
    &&& op_num(r.opcode) < 0x10000
    &&& forall|n: u16| #[trigger] hit16(r.opcode, n) <==> op_num(r.opcode) == n as u32
    &&& spirv::declared_Op(op_num(r.opcode)) && pos_num(op_num(r.opcode)) == i
}
pub proof fn static_ok_at(i: int)
    requires 0 <= i < %d,
    ensures static_ok(static_rows()[i], i),
{
    static_rows_are_table(); table_len();
    let r = static_rows()[i];
    assert(row_view(r) == table()[i]);
    row_facts(i);
    op_num_small(r.opcode);
    assert forall|n: u16| #[trigger] hit16(r.opcode, n) <==> op_num(r.opcode) == n as u32 by { hit16_is(r.opcode, n); }
}
pub proof fn static_row_facts()
    ensures static_rows().len() == %d, forall|i: int| 0 <= i < static_rows().len() ==> static_ok(#[trigger] static_rows()[i], i),
{
    static_rows_are_table(); table_len();
    assert forall|i: int| 0 <= i < static_rows().len() implies static_ok(#[trigger] static_rows()[i], i) by { static_ok_at(i); }
}
""" % (N, N))
        lk.sub(find_re, r"std_find(table_ref(), |\1: &&'static Instruction<'static>| -> (b: bool) ensures b == hit16(\1.opcode, opcode) { proof { reveal(hit16); } \2 })\n}",
               "R7+R13", count=1, flags=re.S)
        lk.add_contract("""    ensures
        // an entry iff the number is a declared opcode; the entry is that opcode's row
        (r is Some) <==> spirv::declared_Op(opcode as u32),
        r matches Some(e) ==> (op_num(e.opcode) == opcode as u32 && row_view(*e) == table()[pos_num(opcode as u32)]),""")
        lk.insert_at("{", """
        proof {
            static_row_facts();
            if spirv::declared_Op(opcode as u32) {
                lemma_declared_has_row(opcode as u32);
                let k = pos_num(opcode as u32);
                assert(static_ok(static_rows()[k], k));
            }
        }
""", where="after", nth=1)
        gt.sub(get_re, r"expect_some(std_find(table_ref(), |\1: &&'static Instruction<'static>| -> (b: bool) ensures b == (\1.opcode == opcode) { (\2) }), \3)\n}",
               "R7+R13", count=1, flags=re.S)
        gt.add_contract("""    ensures r.opcode == opcode, row_view(*r) == table()[pos_num(op_num(opcode))],""")
        gt.insert_at("{", """
        proof {
            static_rows_are_table(); table_len(); table_total_op(opcode);
            let k = pos_num(op_num(opcode));
            assert(row_view(static_rows()[k]) == table()[k]);
            assert forall|i: int| 0 <= i < table().len() implies pos_num(numof(#[trigger] table()[i])) == i by { row_facts(i); }
        }
""", where="after", nth=1)
    else:
        lk.sub(find_re, r"std_find(table_ref(), |\1: &&'static ExtendedInstruction<'static>| -> (b: bool) ensures b == (\1.opcode == opcode) { \2 })\n}",
               "R7+R13", count=1, flags=re.S)
        lk.add_contract("""    ensures
        (r is Some) <==> spirv::declared_%s(opcode),
        r matches Some(e) ==> (e.opcode == opcode && row_view(*e) == table()[pos_num(opcode)]),""" % E)
        lk.insert_at("{", """
        proof {
            static_rows_are_table(); table_len();
            assert forall|i: int| 0 <= i < table().len() implies pos_num((#[trigger] table()[i]).opcode) == i
                && spirv::declared_%s(table()[i].opcode) by { row_facts(i); }
            if spirv::declared_%s(opcode) {
                lemma_declared_has_row(opcode);
                assert(row_view(static_rows()[pos_num(opcode)]) == table()[pos_num(opcode)]);
            }
        }
""" % (E, E), where="after", nth=1)
        gt.sub(get_re, r"expect_some(std_find(table_ref(), |\1: &&'static ExtendedInstruction<'static>| -> (b: bool) ensures b == (\1.opcode == opcode as spirv::Word) { (\2) }), \3)\n}",
               "R7+R13", count=1, flags=re.S)
        gt.add_contract("""    ensures r.opcode == opcode as u32, row_view(*r) == table()[pos_num(opcode as u32)],""")
        gt.insert_at("{", """
        proof {
            static_rows_are_table(); table_len(); table_total(opcode);
            assert forall|i: int| 0 <= i < table().len() implies pos_num((#[trigger] table()[i]).opcode) == i by { row_facts(i); }
            assert(row_view(static_rows()[pos_num(opcode as u32)]) == table()[pos_num(opcode as u32)]);
        }
""", where="after", nth=1)
    g.contract_clauses += 5
    g.raw("impl %s {" % info["ty"])
    g.emit(lk, name="grammar::%s::lookup_opcode" % info["ty"])
    g.emit(gt, name="grammar::%s::get" % info["ty"])
    g.raw("}")


def describe_table(which):
    info = TABLES[which]
    return {
        "unit": "table_" + which,
        "functions_under_contract": ["grammar::%s::lookup_opcode" % info["ty"], "grammar::%s::get" % info["ty"]],
        "trusted_base": ["O4 grammar_snapshot.json (frozen from the pinned tree; stands in for the absent Khronos JSON)"],
        "assumptions": [
            "R13: the run-time value of `static %s` is its initializer (table_ref() contract, assumed by construction)" % info["static"],
            "R7: Iterator::find returns the first element whose closure call returns true (stub specified through the closure's contract)",
            "Option::expect panics exactly on None",
            "%s::iter() (returns TABLE.iter()) is not under contract: impl Trait return type" % info["ty"],
        ],
    }


def witness_table(which, failure, ctx):
    """sweep the real table and the real lookups (finite domains) against O1/O4 and C09's well-formedness"""
    import json as _json
    info = TABLES[which]
    E = info["enum"]
    decl = dict(enum_variants(Source.get(SPIRV).find("enum", E)))
    declnums = set(decl.values())
    bad = []
    p, err = ctx["vreplay"](["table-dump", which])
    if p is None or p.returncode != 0:
        return {"found": False, "error": err or p.stderr[-300:]}
    snap = _json.load(open(SNAPSHOT)).get(which) if os.path.exists(SNAPSHOT) else None
    seen = {}
    lines = p.stdout.splitlines()
    for i, line in enumerate(lines):
        num, name, kinds, caps, exts = line.split(" ", 4)
        num = int(num)
        ops = [tuple(x.split(":")) for x in kinds[len("kinds="):].split(",") if x]
        if num in seen:
            bad.append({"row": i, "opcode": num, "problem": "duplicate of row %d" % seen[num]})
        seen[num] = i
        if num not in declnums:
            bad.append({"row": i, "opcode": num, "problem": "row for an undeclared number"})
        # well-formedness
        seen_opt = False
        for j, (k, q) in enumerate(ops):
            if k == "IdResultType" and j != 0:
                bad.append({"row": i, "name": name, "problem": "IdResultType at index %d" % j})
            if k == "IdResult" and not (j == 0 or (j == 1 and ops[0][0] == "IdResultType")):
                bad.append({"row": i, "name": name, "problem": "IdResult at index %d" % j})
            if q == "One" and seen_opt:
                bad.append({"row": i, "name": name, "problem": "required operand %d after an optional one" % j})
            if q == "ZeroOrMore" and j != len(ops) - 1:
                bad.append({"row": i, "name": name, "problem": "variadic operand %d is not last" % j})
            seen_opt = seen_opt or q != "One"
        if snap is not None:
            if i >= len(snap):
                bad.append({"row": i, "name": name, "problem": "row not in O4 snapshot"})
            else:
                sr = snap[i]
                mine = {"name": name, "operands": [list(o) for o in ops],
                        "caps": [c for c in caps[len("caps="):].split(",") if c],
                        "exts": [e for e in exts[len("exts="):].split(",") if e]}
                theirs = {"name": sr["name"], "operands": [list(o) for o in sr["operands"]], "caps": sr["caps"], "exts": sr["exts"]}
                if mine != theirs:
                    bad.append({"row": i, "name": name, "problem": "differs from O4 snapshot", "real": mine, "snapshot": theirs})
    for n in declnums:
        if n not in seen:
            bad.append({"opcode": n, "problem": "declared number without a row"})
    p2, err = ctx["vreplay"](["lookup-scan", which])
    if p2 is not None and p2.returncode == 0:
        found = {}
        for line in p2.stdout.splitlines():
            parts = line.split()
            if parts[0] == "lookup":
                found[int(parts[1])] = int(parts[2])
                if int(parts[1]) not in declnums or int(parts[2]) != int(parts[1]):
                    bad.append({"lookup_opcode": int(parts[1]), "returned_row_opcode": int(parts[2]),
                                "problem": "lookup_opcode returned an entry for an undeclared number or a different opcode"})
            elif parts[0] == "get" and parts[2] != parts[1]:
                bad.append({"get": int(parts[1]), "returned": parts[2], "problem": "get() panicked or returned another opcode's row"})
        for n in declnums:
            if n not in found and n < (0x10000 if which == "core" else 70001):
                bad.append({"lookup_opcode": n, "problem": "lookup_opcode returned None for a declared number"})
    return {"found": bool(bad), "exhaustive": True, "input": bad[:8],
            "how": "vreplay table-dump/lookup-scan %s: all %d rows and all lookup numbers of the real table" % (which, len(lines))}
