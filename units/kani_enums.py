"""unit `kani_enums` — Kani on the REAL `spirv` crate: every `from_u32` over all 2^32 numbers with
`-Z valid-value-checks` (the real `transmute` must never produce an invalid discriminant).
Validates assumption R1 of the Verus unit `spirv_enums` and yields concrete `n` for replay.
Loop-free, full domain => complete proofs.
"""
import os
import sys
sys.path.insert(0, os.path.join(os.path.dirname(__file__), "..", "tools"))
import krun  # noqa: E402
from .common import Source, Lost, SPIRV, enum_variants  # noqa: E402
from .spirv_enums import ranges  # noqa: E402

NAME = "kani_enums"
ENGINE = "kani"

CARGO = """[package]
name = "kani_enums"
version = "0.0.0"
edition = "2018"
[dependencies]
spirv = { path = "@REPO@/spirv" }
[workspace]
"""


def harness_text(enums):
    hs = ["#![allow(non_snake_case)]", "#[cfg(kani)]", "mod h {"]
    for T, vs in enums:
        rs = ranges([v for _, v in vs])
        cond = " || ".join(("n == %d" % a) if a == b else ("(%d <= n && n <= %d)" % (a, b)) for a, b in rs)
        hs.append("""
    #[kani::proof]
    fn from_u32_%(T)s() {
        let n: u32 = kani::any();
        let declared = %(cond)s; // O1: discriminants of `pub enum %(T)s`
        match spirv::%(T)s::from_u32(n) {
            Some(v) => {
                assert!(declared);
                assert!(v as u32 == n);
            }
            None => assert!(!declared),
        }
    }""" % {"T": T, "cond": cond})
    hs.append("""
    #[kani::proof]
    fn mustfail_from_u32() {
        let n: u32 = kani::any();
        assert!(spirv::SourceLanguage::from_u32(n).is_some()); // must be refuted
    }""")
    hs.append("}")
    return "\n".join(hs) + "\n"


def run(tier, workdir):
    src = Source.get(SPIRV)
    enums = [(e.name, enum_variants(e)) for e in src.find_all("enum")]
    d = krun.prepare(NAME, {"Cargo.toml": CARGO, "src/lib.rs": harness_text(enums)}, os.path.dirname(workdir))
    hs = {"from_u32_%s" % T: {"kind": "complete"} for T, _ in enums}
    hs["mustfail_from_u32"] = {"kind": "control"}
    r = krun.run_kani(d, hs, flags=["-Z", "valid-value-checks"],
                      unit=NAME, timeout=3000, jobs=8)
    mf = r["functions"].pop(NAME + "::mustfail_from_u32", None)
    rejected = mf is not None and not mf["ok"] and any(f["item"] == "harness::mustfail_from_u32" for f in r["failures"])
    r["failures"] = [f for f in r["failures"] if f["item"] != "harness::mustfail_from_u32"]
    r["errors"] = len([1 for f in r["functions"].values() if not f["ok"]])
    r["mustfail"] = {"rejected": rejected, "failures": 1 if rejected else 0, "undecided": []}
    return r


def describe():
    return {"unit": NAME,
            "functions_under_contract": [],
            "assumptions": ["CBMC memory model and Kani's valid-value instrumentation of transmute"]}


def witness(failure, ctx):
    pb = failure.get("playback")
    return {"found": bool(pb), "exhaustive": False, "input": pb,
            "how": "Kani concrete playback" if pb else "Kani gave no concrete values"}
