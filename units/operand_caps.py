"""unit `operand_caps` — C17: dr::Operand::required_capabilities and required_extensions (about 2500 generated lines),
every arm of the two real functions under contract (R26, one function per arm: the whole-function query did not terminate in 20 min): for every operand value the returned list equals the list the O4
snapshot (oracle/reflect_caps_snapshot.json, frozen from the pinned tree; stands in for the absent Khronos
JSON) gives for its enumerant, or the concatenation over the capability groups its set bits intersect.

Rewrites: R28 `A | B` on mask constants = `A.union(B)` (bitflags `|`, proved equal by unit kani_masks);
R27 `result.extend_from_slice(&[a, b])` = `result.push(a); result.push(b);`."""
import json
import os
import re
from .common import Source, Piece, Gen, Lost, HEADER
from . import lib_spirv, lib_dr

NAME = "operand_caps"
FILE = "rspirv/dr/autogen_operand.rs"
SNAPSHOT = os.path.join(os.path.dirname(__file__), "..", "oracle", "reflect_caps_snapshot.json")


def shards(tier):
    return ["caps", "exts"]


def orchain(bits):
    e = "%du32" % bits[0]
    for b in bits[1:]:
        e = "(%s | %du32)" % (e, b)
    return e


def spec_text(fn, snap, ty, lit):
    out = []
    for K, d in sorted(snap.items()):
        if d["kind"] == "enum":
            arms = "\n".join("        spirv::%s::%s => seq![%s]," % (K, v, ", ".join(lit(x) for x in items)) for v, items in sorted(d["table"].items()))
            out.append("pub open spec fn %s_%s(v: spirv::%s) -> Seq<%s> {\n    match v {\n%s\n        _ => Seq::empty(),\n    }\n}" % (fn, K, K, ty, arms))
        else:
            parts = ["(if v.bits_ & %s != 0 { seq![%s] } else { Seq::<%s>::empty() })" % (orchain(bits), ", ".join(lit(x) for x in items), ty) for bits, items in d["groups"]]
            out.append("pub open spec fn %s_%s(v: spirv::%s) -> Seq<%s> {\n    %s\n}" % (fn, K, K, ty, "\n    + ".join(parts) if parts else "Seq::empty()"))
    out.append("// O4 snapshot: what the grammar lists for the operand's enumerant / set bits\npub open spec fn %s_of(op: Operand) -> Seq<%s> {\n    match op {\n%s\n        _ => Seq::empty(),\n    }\n}" % (
        fn, ty, "\n".join("        Operand::%s(v) => %s_%s(v)," % (K, fn, K) for K in sorted(snap))))
    return "\n".join(out)


def build(tier="quick", must_fail=False, shard=None):
    g = Gen(NAME if not must_fail else NAME + "_mustfail")
    src = Source.get(FILE)
    snap = json.load(open(SNAPSHOT))
    g.raw(HEADER)
    g.raw("verus! {")
    lib_spirv.emit(g, with_alias=True, from_u32=False)
    lib_dr.emit_grammar(g, with_reflect=False)
    lib_dr.emit_dr(g, with_new=False)
    assert g.lines[-1].startswith("} // mod dr")
    g.lines.pop()
    todo = [("required_capabilities", "caps", "spirv::Capability", lambda x: "spirv::Capability::" + x),
            ("required_extensions", "exts", "&'static str", lambda x: '"%s"' % x)]
    if shard is not None:
        todo = [t for t in todo if t[1] == shard]
    if must_fail:
        todo = todo[:1]
    from .lift_reflect import split_arms
    g.raw("use crate::spirv as s;")
    n_arms = 0
    for fn, short, ty, lit in todo:
        g.raw(spec_text(short, snap[fn], ty, lit))
        f = src.find("fn", "Operand::" + fn)
        t = f.core_text
        m = re.search(r"match self \{(.*)\}\s*\}\s*$", t, re.S)
        if not m:
            raise Lost("%s: unexpected shape" % fn)
        seen = set()
        for pat, expr in split_arms(m.group(1)):
            mm = re.match(r"^Self::(\w+)\(v\)$", pat)
            if not mm:
                if pat == "_" and re.match(r"^vec!\[\]$", expr):
                    continue
                raise Lost("%s: unexpected arm %r" % (fn, pat[:60]))
            K = mm.group(1)
            seen.add(K)
            line = f.line + t[:t.find(pat + " =>")].count("\n")
            # R28: `|` of mask constants -> union
            def ors(mo):
                flags = [x.strip() for x in mo.group(1).split("|")]
                e = flags[0]
                for x in flags[1:]:
                    e = "%s.union(%s)" % (e, x)
                return "v.intersects(%s)" % e
            body = re.sub(r"v\s*\.intersects\(\s*((?:s::\w+::\w+\s*\|?\s*)+),?\s*\)", ors, expr, flags=re.S)
            # R27: extend_from_slice of an array literal -> pushes in order
            body = re.sub(r"result\.extend_from_slice\(&\[([^\]]*)\]\)",
                          lambda mo: "{ " + " ".join("result.push(%s);" % x.strip() for x in mo.group(1).split(",") if x.strip()) + " }", body, flags=re.S)
            if K not in snap[fn]:
                ens = "false /* %s is not in the O4 snapshot */" % K
            else:
                ens = "r@ =~= %s_%s(v)" % (short, K)
            if must_fail and n_arms == 0:
                ens += ", false"
            # R26: the arm `Self::K(v) => <expr>` of `match self` as a function of the payload (v: &K there, copied here)
            g.raw("// %s:%d  arm `Self::%s(v) =>` of Operand::%s (R26), real text\npub fn %s_arm_%s(v: spirv::%s) -> (r: Vec<%s>)\n    ensures %s,\n{\n    %s\n}" % (
                FILE, line, K, fn, short, K, K, ty, ens, body))
            n_arms += 1
            g.contract_clauses += 1
        missing = sorted(set(snap[fn]) - seen)
        if missing:
            g.raw("pub proof fn %s_snapshot_kinds() ensures false /* kinds of the O4 snapshot without an arm: %s */ {}" % (short, ", ".join(missing)))
    g.n_arms = n_arms
    # C17: the parameters additional_operands reports (lifted on every run, exact kinds and quantifiers) equal the O4 snapshot
    if shard in (None, "caps") and not must_fail:
        from .lift_reflect import lift
        psnap = json.load(open(os.path.join(os.path.dirname(SNAPSHOT), "reflect_params_snapshot.json")))
        enums_now, masks_now = lift()
        now = {"enums": {K: {e: [list(x) for x in ops] for e, ops in t.items()} for K, t in enums_now.items()},
               "masks": {K: [[list(fl), [list(x) for x in ops]] for fl, ops in gs] for K, gs in masks_now.items()}}
        for cat in ("enums", "masks"):
            for K in sorted(set(psnap[cat]) | set(now[cat])):
                a, b = now[cat].get(K), psnap[cat].get(K)
                if a == b:
                    why = "true"
                else:
                    if cat == "enums" and a is not None and b is not None:
                        diff = [e for e in sorted(set(a) | set(b)) if a.get(e) != b.get(e)][:4]
                    else:
                        diff = ["whole kind"]
                    why = "false /* additional_operands differs from the O4 snapshot for: %s */" % ", ".join(diff)
                g.raw("pub proof fn params_snapshot_%s() ensures %s {}" % (K, why))
                g.contract_clauses += 1
    g.raw("} // mod dr")
    g.raw("} // verus!")
    g.raw("fn main() {}")
    return g


def describe():
    return {"unit": NAME, "functions_under_contract": ["dr::Operand::required_capabilities", "dr::Operand::required_extensions"],
            "trusted_base": ["O4 reflect_caps_snapshot.json (capability / extension lists per enumerant and per flag group, frozen from the pinned tree; stands in for the absent Khronos JSON)"],
            "assumptions": lib_spirv.ASSUMED + ["R26: each arm `Self::K(v) => <expr>` of the two functions is verified as a function of its payload; that the outer `match self` selects the arm by the variant named in its pattern is Rust's match semantics, not re-proved",
                                        "R27: Vec::extend_from_slice(&[a, b]) appends a then b", "R28: `A | B` on bit-mask constants is `A.union(B)` (bits or-ed; checked by unit kani_masks)"]}


def witness(failure, ctx):
    """every value of the kind named by the failed obligation (all enumerants / all combinations of declared bits) on the real
    Operand::required_capabilities / required_extensions, compared with the O4 snapshot (generated program)"""
    from .common import SPIRV, enum_variants
    from .kani_masks import mask_decls
    pm = re.search(r"params_snapshot_(\w+)", failure.get("item") or "")
    if pm:
        # the real additional_operands() of every enumerant of the kind, compared (exact kinds and quantifiers) with the O4 snapshot
        K = pm.group(1)
        psnap = json.load(open(os.path.join(os.path.dirname(SNAPSHOT), "reflect_params_snapshot.json")))
        if K not in psnap["enums"]:
            return {"found": False, "exhaustive": False, "how": "mask kinds: see reflect_sweep"}
        prog = ("// generated by /verif/units/operand_caps.py\n#![allow(unused)]\nuse rspirv::dr::Operand;\nuse rspirv::spirv;\nfn main() {\n"
                "    for x in 0u32..=70000 { if let Some(v) = spirv::%s::from_u32(x) {\n"
                "        let ops: Vec<String> = Operand::%s(v).additional_operands().iter().map(|l| format!(\"{:?}:{:?}\", l.kind, l.quantifier)).collect();\n"
                "        println!(\"{:?} {}\", v, ops.join(\",\")); } }\n}\n" % (K, K))
        p, err = ctx["vgen"]("params_witness", prog, [])
        if p is None:
            return {"found": False, "error": err}
        mm = []
        for line in p.stdout.splitlines():
            parts = line.split(" ", 1)
            name, got = parts[0], (parts[1].strip() if len(parts) > 1 else "")
            want = ",".join("%s:%s" % (k, q) for k, q in psnap["enums"][K].get(name, []))
            if got != want:
                mm.append("%s::%s reports [%s], the snapshot lists [%s]" % (K, name, got, want))
        return {"found": bool(mm), "exhaustive": True, "input": mm[:6],
                "how": "generated program: Operand::%s(v).additional_operands() for every enumerant on the real crate vs the O4 snapshot" % K}
    m = re.match(r"dr::(caps|exts)_arm_(\w+)$", (failure.get("item") or "").replace("lemma::", "dr::"))
    if not m:
        m = re.search(r"(caps|exts)_arm_(\w+)", failure.get("item") or "")
    if not m:
        return {"found": False, "exhaustive": False, "how": "obligation not tied to one operand kind"}
    short, K = m.group(1), m.group(2)
    fn = "required_capabilities" if short == "caps" else "required_extensions"
    snap = json.load(open(SNAPSHOT))[fn].get(K)
    if snap is None:
        return {"found": False, "exhaustive": False, "how": "kind not in the snapshot"}
    fmt = 'format!("{:?}", x)' if short == "caps" else "x.to_string()"
    if snap["kind"] == "mask":
        exp = "\n".join("    if bits & %d != 0 { %s }" % (sum(set(bs)) if False else eval("|".join(str(b) for b in bs)), " ".join('out.push("%s".to_string());' % it for it in items))
                        for bs, items in snap["groups"])
        body = """
fn expect(bits: u32) -> Vec<String> { let mut out = vec![];
%s
    out }
fn main() {
    let all = spirv::%s::all().bits();
    let mut s = all; let mut bad = 0; let mut n = 0u64;
    loop {
        let v = spirv::%s::from_bits(s).unwrap();
        let got: Vec<String> = Operand::%s(v).%s().iter().map(|x| %s).collect();
        n += 1;
        if got != expect(s) { bad += 1; if bad <= 5 { println!("MISMATCH %s bits={:#x} reported={:?} snapshot={:?}", s, got, expect(s)); } }
        if s == 0 { break; } s = (s - 1) & all;
    }
    println!("checked {} values, {} mismatches", n, bad);
}""" % (exp, K, K, K, fn, fmt, K)
    else:
        vals = dict(enum_variants(Source.get(SPIRV).find("enum", K)))
        arms = "\n".join("        %d => vec![%s]," % (vals[v], ", ".join('"%s".to_string()' % it for it in items)) for v, items in snap["table"].items() if v in vals)
        body = """
fn expect(n: u32) -> Vec<String> { match n {
%s
        _ => vec![] } }
fn main() {
    let mut bad = 0; let mut n = 0u64;
    for x in 0u32..=70000 {
        if let Some(v) = spirv::%s::from_u32(x) {
            let got: Vec<String> = Operand::%s(v).%s().iter().map(|x| %s).collect();
            n += 1;
            if got != expect(x) { bad += 1; if bad <= 5 { println!("MISMATCH %s value={} reported={:?} snapshot={:?}", x, got, expect(x)); } }
        }
    }
    println!("checked {} values, {} mismatches", n, bad);
}""" % (arms, K, K, fn, fmt, K)
    prog = "// generated by /verif/units/operand_caps.py\n#![allow(unused)]\nuse rspirv::dr::Operand;\nuse rspirv::spirv;\n" + body
    p, err = ctx["vgen"]("caps_witness", prog, [])
    if p is None:
        return {"found": False, "error": err}
    lines = p.stdout.splitlines()
    mm = [l for l in lines if l.startswith("MISMATCH")]
    return {"found": bool(mm), "exhaustive": True, "input": mm[:5], "observed": lines[-1:],
            "how": "generated program: Operand::%s(v).%s() for every value of the kind on the real crate vs the O4 snapshot" % (K, fn)}
