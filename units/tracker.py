"""unit `tracker` — binary/tracker.rs: TypeTracker::{new, track, resolve} under contract (C10).

View: the id -> Type map (`self.types@`). `track` is proved to implement the statement of C10:
an OpTypeInt/OpTypeFloat declaration with a result id records Integer(width, signedness == 1) /
Float(width); other type declarations record nothing; any other instruction with a result id whose
result type resolves records that type for its result id (propagation, whatever the type); nothing
else changes. `resolve` is the lookup; `new` is empty.

Precondition of `track` (what the parser delivers, C03): an OpTypeInt carries at least two operands,
an OpTypeFloat at least one (required operands of their grammar rows).
"""
import re
from .common import Source, Piece, Gen, Lost, HEADER, count_clauses
from . import lib_spirv, lib_dr

NAME = "tracker"
FILE = "rspirv/binary/tracker.rs"

SPEC = r"""
// C10: effect of one tracked instruction on the id -> type map, written from the statement
pub open spec fn track_spec(m: Map<u32, Type>, inst: dr::Instruction) -> Map<u32, Type> {
    match inst.result_id {
        None => m,
        Some(rid) =>
            if grammar::reflect::class_type(inst.class.opcode) {
                if inst.class.opcode == spirv::Op::TypeInt {
                    match (inst.operands@[0], inst.operands@[1]) {
                        (dr::Operand::LiteralBit32(bits), dr::Operand::LiteralBit32(sign)) => m.insert(rid, Type::Integer(bits, sign == 1)),
                        _ => m,
                    }
                } else if inst.class.opcode == spirv::Op::TypeFloat {
                    match inst.operands@[0] { dr::Operand::LiteralBit32(bits) => m.insert(rid, Type::Float(bits)), _ => m }
                } else { m }
            } else {
                match inst.result_type {
                    Some(t) => if m.contains_key(t) { m.insert(rid, m[t]) } else { m },
                    None => m,
                }
            },
    }
}
pub open spec fn trackable(inst: dr::Instruction) -> bool {
    (inst.class.opcode == spirv::Op::TypeInt ==> inst.operands@.len() >= 2)
    && (inst.class.opcode == spirv::Op::TypeFloat ==> inst.operands@.len() >= 1)
}
"""


def build(tier="quick", must_fail=False):
    g = Gen(NAME if not must_fail else NAME + "_mustfail")
    src = Source.get(FILE)
    g.raw(HEADER)
    g.raw("verus! {")
    lib_spirv.emit(g, with_alias=True, from_u32=False)
    lib_dr.emit_grammar(g, with_reflect=True)
    lib_dr.emit_dr(g, with_new=False)
    g.raw("pub mod binary { pub mod tracker {\nuse vstd::prelude::*;\nuse crate::dr;\nuse crate::grammar;\nuse crate::spirv;\nuse std::collections;")
    g.raw("#[derive(Clone, Copy, PartialEq, Eq)]")
    g.emit(Piece(src.find("enum", "Type")), name="binary::tracker::Type", under_contract=False)
    st = Piece(src.find("struct", "TypeTracker"))
    st.sub(r"(\n\s*)(types):", r"\1pub \2:", "R15", count=1)
    g.emit(st, name="binary::tracker::TypeTracker", under_contract=False)
    g.raw(SPEC)
    g.raw("impl TypeTracker {\n    pub open spec fn view(&self) -> Map<u32, Type> { self.types@ }")
    # new
    p = Piece(src.find("fn", "TypeTracker::new"))
    p.name_result("r")
    p.add_contract("    ensures r.view() == Map::<u32, Type>::empty(),")
    g.emit(p, name="binary::tracker::TypeTracker::new")
    # resolve
    p = Piece(src.find("fn", "TypeTracker::resolve"))
    p.name_result("r")
    p.sub(r"self\.types\.get\(&id\)\.cloned\(\)", "match self.types.get(&id) { Some(t) => Some(*t), None => None }", "R10", count=1)
    c = "    ensures r == (if self.view().contains_key(id) { Some(self.view()[id]) } else { None::<Type> }),"
    if must_fail:
        c = "    ensures false,"
    p.add_contract(c)
    g.emit(p, name="binary::tracker::TypeTracker::resolve")
    g.contract_clauses += 2
    if not must_fail:
        p = Piece(src.find("fn", "TypeTracker::track"))
        # R24: `(&A(x), &B(y)) = (&e1, &e2)` reference patterns (rejected by Verus) -> nested by-value matches on Copy payloads
        p.sub(r"if let \(\s*&dr::Operand::LiteralBit32\(bits\),\s*&dr::Operand::LiteralBit32\(sign\),\s*\) = \(&inst\.operands\[0\], &inst\.operands\[1\]\)\s*\{",
              "if let (dr::Operand::LiteralBit32(bits), dr::Operand::LiteralBit32(sign)) = (operand_copy(&inst.operands[0]), operand_copy(&inst.operands[1])) {",
              "R24", count=1, flags=re.S)
        p.sub(r"if let dr::Operand::LiteralBit32\(bits\) = inst\.operands\[0\]", "if let dr::Operand::LiteralBit32(bits) = operand_copy(&inst.operands[0])",
              "R24", count=1)
        # R10: Option::and_then(..).map(..) by their definitions
        p.sub(r"inst\.result_type\s*\.and_then\(\|t\| self\.resolve\(t\)\)\s*\.map\(\|t\| self\.types\.insert\(rid, t\)\);",
              "match inst.result_type { Some(t) => match self.resolve(t) { Some(t) => { self.types.insert(rid, t); } None => {} }, None => {} }",
              "R10", count=1, flags=re.S)
        p.add_contract("""    requires trackable(*inst),
    ensures final(self).view() == track_spec(old(self).view(), *inst),""")
        g.contract_clauses += 2
        g.emit(p, name="binary::tracker::TypeTracker::track")
    g.raw("}")
    g.raw("""// R24: a by-value copy of the literal payload of an operand (the real code binds it through a reference pattern)
pub enum OperandLit { LiteralBit32(u32), Other }
#[verifier::external_body]
pub fn operand_copy(o: &dr::Operand) -> (r: dr::Operand)
    ensures r == *o,
{ unimplemented!() }
""")
    g.raw("} } // mod binary::tracker")
    g.raw("} // verus!")
    g.raw("fn main() {}")
    return g


def describe():
    return {"unit": NAME,
            "functions_under_contract": ["binary::tracker::TypeTracker::new", "binary::tracker::TypeTracker::track", "binary::tracker::TypeTracker::resolve"],
            "assumptions": lib_dr.ASSUMED[1:] + [
                "std HashMap<u32, _> behaves as vstd's map model (insert / get / new)",
                "R24: binding a Copy payload through a reference pattern equals matching a copy of the operand",
                "R10: Option::and_then / map / cloned by their definitions",
                "ExtInstSetTracker (disassembler only) is not under contract",
            ]}


def witness(failure, ctx):
    from . import parser_core
    return parser_core.witness(failure, ctx)
