"""Helpers shared by the units."""
import os
import re
import sys

sys.path.insert(0, os.path.join(os.path.dirname(__file__), "..", "tools"))
from rsx import Source, Piece, Gen, Lost, count_clauses  # noqa: E402

SPIRV = "spirv/autogen_spirv.rs"

HEADER = """#![allow(non_camel_case_types, non_upper_case_globals, non_snake_case, unused_imports, unused_variables, dead_code, unused_mut, unused_parens, unreachable_patterns, unused_braces, unused_assignments)]
use vstd::prelude::*;
"""

ENUM_DERIVE = "#[derive(Clone, Copy, PartialEq, Eq)]\n#[repr(u32)]\n"

# R19: the `#[derive(PartialEq)]` of the real declaration is kept (constant patterns need it);
# Verus gives a derived `eq` no specification, so `PartialEqSpecImpl` states that it is
# structural equality (Verus' own `derive(Structural)` crashes in the installed build).
# Assumption "derived PartialEq is structural", listed in every evidence file.
ENUM_EQ = """impl vstd::std_specs::cmp::PartialEqSpecImpl for %(T)s {
    open spec fn obeys_eq_spec() -> bool { true }
    open spec fn eq_spec(&self, other: &Self) -> bool { *self == *other }
}
"""


def contracts_path(name):
    return os.path.join(os.path.dirname(__file__), "..", "contracts", name)


def read_contract(name):
    with open(contracts_path(name), encoding="utf-8") as f:
        return f.read()


def enum_variants(item):
    """[(name, value)] of a C-like enum item with explicit discriminants (O1)."""
    body = item.src.text[item.body_open + 1:item.body_close]
    body = re.sub(r"//[^\n]*", "", body)
    body = re.sub(r"#\s*\[[^\]]*\]", "", body)
    out = []
    for part in body.split(","):
        part = part.strip()
        if not part:
            continue
        m = re.match(r"^(\w+)\s*=\s*(0x[0-9a-fA-F_]+|\d[\d_]*)\s*(u32)?$", part)
        if not m:
            m2 = re.match(r"^(\w+)$", part)
            if m2:
                out.append((m2.group(1), None))
                continue
            raise Lost("enum %s: cannot read variant %r" % (item.name, part))
        out.append((m.group(1), int(m.group(2).replace("_", ""), 0)))
    return out


def emit_enum(g, rel, name, derive=ENUM_DERIVE):
    """Real enum declaration; attributes replaced by the derive Verus needs (R12)."""
    it = Source.get(rel).find("enum", name)
    p = Piece(it)
    g.raw(derive.rstrip("\n"))
    g.emit(p, name="enum " + name, under_contract=False)
    g.raw(ENUM_EQ % {"T": name})
    return it


def alias_consts(rel, ty):
    """{alias: target} from `impl T { pub const A: T = T::B; }` blocks."""
    out = {}
    src = Source.get(rel)
    for imp in src.find_all("impl", lambda i: i.impl_of == ty and i.impl_trait is None):
        for c in imp.children:
            if c.kind == "const":
                m = re.search(r"const\s+(\w+)\s*:\s*(?:Self|%s)\s*=\s*(?:Self|%s)::(\w+)\s*;" % (ty, ty), c.core_text)
                if m:
                    out[m.group(1)] = m.group(2)
    return out


def emit_alias_impl(g, rel, ty):
    """The real `impl T { pub const A: T = T::B; ... }` block(s) that hold alias consts."""
    src = Source.get(rel)
    n = 0
    for imp in src.find_all("impl", lambda i: i.impl_of == ty and i.impl_trait is None):
        if imp.children and all(c.kind == "const" for c in imp.children):
            g.emit(Piece(imp), name="impl %s (alias consts)" % ty, under_contract=False)
            n += 1
    return n


def ops_in_file(rel):
    """Opcodes named as `spirv::Op::X` in a builder file, in order of first occurrence."""
    txt = Source.get(rel).text
    seen, out = set(), []
    for m in re.finditer(r"spirv::Op::(\w+)", txt):
        if m.group(1) not in seen:
            seen.add(m.group(1))
            out.append(m.group(1))
    return out


def spec_set_fn(name, ty, members, comment=""):
    """`pub open spec fn name(x: ty) -> bool { x == ty::A || ... }`"""
    if members:
        body = "\n        || ".join("op == %s::%s" % (ty, m) for m in members)
    else:
        body = "false"
    c = ("// " + comment + "\n") if comment else ""
    return "%spub open spec fn %s(op: %s) -> bool {\n    %s\n}\n" % (c, name, ty, body)
