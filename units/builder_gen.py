"""unit `builder_gen` — C13 / C12 / C06: the GENERATED Builder methods of dr/build/autogen_type.rs (`type_*` and `type_*_id`)
and dr/build/autogen_terminator.rs (terminators and their `insert_` forms) whose operands are all required or optional,
verbatim, under contract:
  * type methods: the three-way branch of C13 (explicit id: always appends a declaration with that id; implicit and an identical
    declaration with an id exists: the id of the first such, module unchanged; implicit otherwise: one declaration with the fresh id),
    with the declaration's opcode and operand vector (the same contract text as the hand-written type_pointer);
  * terminators: fail with MismatchedTerminator iff no block is selected, otherwise insert exactly the instruction (opcode, operands)
    at the insert point and close the block.
The hand-written methods they call (id, dedup_insert_type, end_block, insert_end_block) are contract-only here; their contracts are
proved in unit builder_core. Methods with variadic / pair operands (iterator adapters) are outside Verus: covered by units builder_ops
(operand order) and method_sweep (bounded)."""
from . import builder_core

NAME = "builder_gen"


def build(tier="quick", must_fail=False):
    return builder_core.build(tier, must_fail=must_fail, gen=True)


def describe():
    d = builder_core.describe()
    return {"unit": NAME,
            "functions_under_contract": ["dr::build::Builder::{type_*, type_*_id} with fixed / optional operands (autogen_type.rs)",
                                         "dr::build::Builder::{terminators, insert_ terminators} with fixed operands (autogen_terminator.rs)"],
            "assumptions": d["assumptions"] + ["contracts of Builder::{id, dedup_insert_type, end_block, insert_end_block} and Instruction::new: assumed here, proved in unit builder_core",
                                               "NOT under Verus: generated methods with variadic / pair operands (type_struct, type_function, branch_conditional, switch, ...)"]}


def witness(failure, ctx):
    return builder_core.witness(failure, ctx)
