"""Lifting of dr::Operand::required_capabilities / required_extensions (autogen_operand.rs) into data, used ONLY to
freeze the O4 snapshot oracle/reflect_caps_snapshot.json on the pinned tree (tools/freeze_oracle.py):
   enum kinds:  {"kind": "enum", "table": {enumerant: [items]}}            (enumerants with an empty list omitted)
   mask kinds:  {"kind": "mask", "groups": [[[bit of each flag of the group], [items]], ...]}   in source order
A mask arm is `let mut result = vec![]; (if v.intersects(F1 | F2 ..) { result.extend_from_slice(&[items]) };)* result`."""
import re
from .common import Source, Lost
from .lift_reflect import split_arms, OPERAND
from .kani_masks import mask_decls


def lift(fn_name):
    f = Source.get(OPERAND).find("fn", "Operand::" + fn_name)
    t = f.core_text
    m = re.search(r"match self \{(.*)\}\s*\}\s*$", t, re.S)
    if not m:
        raise Lost("%s: unexpected shape" % fn_name)
    decls = {T: dict(c) for T, c in mask_decls()}
    out = {}
    item = (lambda s_: re.sub(r"^spirv::Capability::", "", s_.strip())) if fn_name == "required_capabilities" else (lambda s_: s_.strip().strip('"'))
    for pat, expr in split_arms(m.group(1)):
        mm = re.match(r"^Self::(\w+)\(v\)$", pat)
        if not mm:
            if pat == "_" and re.match(r"^vec!\[\]$", expr):
                continue
            raise Lost("%s: unexpected arm %r" % (fn_name, pat[:60]))
        K = mm.group(1)
        if expr.startswith("match v"):
            inner = re.match(r"^match v \{(.*)\}$", expr, re.S)
            table = {}
            for pats, rhs in split_arms(inner.group(1)):
                lm = re.match(r"^(?:\{\s*)?vec!\[(.*?)\](?:\s*\})?$", rhs, re.S)
                if not lm:
                    raise Lost("%s %s: arm rhs %r" % (fn_name, K, rhs[:40]))
                items = [item(x) for x in lm.group(1).split(",") if x.strip()]
                for pv in pats.split("|"):
                    vm = re.match(r"^s::%s::(\w+)$" % K, pv.strip())
                    if not vm:
                        raise Lost("%s %s: pattern %r" % (fn_name, K, pv.strip()[:40]))
                    if items:
                        table[vm.group(1)] = items
            out[K] = {"kind": "enum", "table": table}
        else:
            bm = re.match(r"^\{\s*let mut result = vec!\[\];(.*)result\s*\}$", expr, re.S)
            if not bm:
                raise Lost("%s %s: mask arm shape" % (fn_name, K))
            rest, groups = bm.group(1), []
            pos = 0
            for gm in re.finditer(r"\s*if v\s*\.intersects\(\s*(.*?),?\s*\)\s*\{\s*result\.extend_from_slice\(&\[(.*?)\]\)\s*\}\s*;", rest, re.S):
                if rest[pos:gm.start()].strip():
                    raise Lost("%s %s: unexpected text %r" % (fn_name, K, rest[pos:gm.start()].strip()[:40]))
                pos = gm.end()
                bits = []
                for fl in gm.group(1).split("|"):
                    fm = re.match(r"^s::%s::(\w+)$" % K, fl.strip())
                    if not fm:
                        raise Lost("%s %s: flag %r" % (fn_name, K, fl.strip()[:40]))
                    bits.append(decls[K][fm.group(1)])
                groups.append([bits, [item(x) for x in gm.group(2).split(",") if x.strip()]])
            if rest[pos:].strip():
                raise Lost("%s %s: unexpected text %r" % (fn_name, K, rest[pos:].strip()[:40]))
            out[K] = {"kind": "mask", "groups": groups}
    return out


def snapshot_now():
    return {"required_capabilities": lift("required_capabilities"), "required_extensions": lift("required_extensions")}


if __name__ == "__main__":
    s = snapshot_now()
    for k, v in s.items():
        print(k, len(v), sum(len(x.get("table", x.get("groups"))) for x in v.values()))
