"""unit `reflect_sweep` — NOT deductive: an exhaustive sweep of finite domains on the REAL crate
(vreplay reflect-sweep): for every enumerant of ExecutionMode and Decoration and every combination
of declared bits of ImageOperands, LoopControl, MemoryAccess and TensorAddressingOperands, the kinds
`Operand::additional_operands()` reports are compared with the operands the real parser consumes
after that value (same sequence for enumerants, same multiset for masks). Reported in the evidence
as engine `replay-exhaustive`, separately from proved obligations. It stands in for the part of C17
Verus cannot take (iterator chains in additional_operands; the three largest parse_*_arguments)."""
import os
import sys
sys.path.insert(0, os.path.join(os.path.dirname(__file__), "..", "tools"))

NAME = "reflect_sweep"
ENGINE = "replay-exhaustive"
KINDS = ["ExecutionMode", "Decoration", "ImageOperands", "LoopControl", "MemoryAccess", "TensorAddressingOperands"]


def run(tier, workdir):
    import driver
    import time
    t0 = time.time()
    p, err = driver.vreplay(["reflect-sweep"], timeout=1800)
    res = {"engine": ENGINE, "cmd": "vreplay reflect-sweep (real rspirv built from the working tree)", "functions": {}, "failures": [],
           "undecided": [], "smt_ms": 0, "verified": 0, "errors": 0, "mustfail": None, "states": 0}
    if p is None or p.returncode != 0:
        res["undecided"].append({"reason": "replay-failed", "detail": err or (p.stderr[-800:] if p else "")})
        return res
    counts, mism = {}, {}
    for line in p.stdout.splitlines():
        if line.startswith("checked "):
            _, k, n = line.split()
            counts[k] = int(n)
        elif line.startswith("MISMATCH "):
            k = line.split()[1]
            mism.setdefault(k, []).append(line)
    for k in KINDS:
        fname = "%s::sweep_%s" % (NAME, k)
        if k not in counts:
            res["functions"][fname] = {"ok": False, "ms": 0, "mode": "exhaustive"}
            res["undecided"].append({"reason": "kind-not-swept", "detail": k})
            continue
        ok = k not in mism
        res["functions"][fname] = {"ok": ok, "ms": 0, "mode": "exhaustive", "values": counts[k]}
        res["states"] += counts[k]
        if ok:
            res["verified"] += 1
        else:
            res["errors"] += 1
            res["failures"].append({"message": "reflection and parser disagree", "kind": "sweep_mismatch", "gen_line": None,
                                    "text": k, "item": "sweep_" + k, "src_file": "rspirv/dr/autogen_operand.rs", "src_line": None,
                                    "others": [], "rendered": "\n".join(mism[k][:10]), "witness_lines": mism[k][:5]})
    res["smt_ms"] = int((time.time() - t0) * 1000)
    return res


def describe():
    return {"unit": NAME, "functions_under_contract": [],
            "bounded": [],
            "assumptions": ["reflect_sweep is an exhaustive enumeration of finite domains on the real code, not a proof: all 94 ExecutionMode and 142 Decoration enumerants, "
                            "all 65536 / 524288 / 256 / 4 declared-bit combinations of the four parameterised masks; parameter words are all zero"]}


def witness(failure, ctx):
    w = failure.get("witness_lines")
    return {"found": bool(w), "exhaustive": True, "input": w, "how": "vreplay reflect-sweep on the real crate"}
