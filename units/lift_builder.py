"""Lifting of generated Builder methods (dr/build/autogen_*.rs) into data: for every method that
emits exactly one opcode, the sequence of operand constructions in program order:
   ("One", Variant, param) | ("ZeroOrOne", Variant, param) | ("ZeroOrMore", Variant or "Pair:A,B", param) | ("Extra", None, param)
read off the real text (vec![..] literal, `if let Some(v) = p { push }`, `extend(p.into_iter().map(Ctor))`,
`for v in p { push; push }`, `extend(p)`), plus the parameter names in signature order."""
import re
from .common import Source, Lost

FILES = ["rspirv/dr/build/autogen_norm_insts.rs", "rspirv/dr/build/autogen_type.rs", "rspirv/dr/build/autogen_constant.rs",
         "rspirv/dr/build/autogen_annotation.rs", "rspirv/dr/build/autogen_debug.rs", "rspirv/dr/build/autogen_terminator.rs"]
PARAMETERISED = {"ImageOperands", "LoopControl", "MemoryAccess", "ExecutionMode", "Decoration", "TensorAddressingOperands"}


def variant_of_kind(k):
    return {"LiteralInteger": "LiteralBit32", "LiteralFloat": "LiteralBit32", "PairIdRefLiteralInteger": "Pair:IdRef,LiteralBit32",
            "PairLiteralIntegerIdRef": "Pair:raw,IdRef", "PairIdRefIdRef": "Pair:IdRef,IdRef"}.get(k, k)


def lift_method(f):
    t = f.core_text
    sig = t[:f.body_open - f.head_start]
    body = t[f.body_open - f.head_start:]
    params = [m.group(1) for m in re.finditer(r"(\w+)\s*:\s*(?:spirv::|Option<|impl |u32|u64|f32|InsertPoint|dr::|\()", sig)]
    ops = set(re.findall(r"spirv::Op::(\w+)", body))
    if len(ops) != 1:
        return None
    op = ops.pop()
    seq = []
    m = re.search(r"dr::Instruction::new\(\s*spirv::Op::\w+,\s*([^,]+),\s*([^,]+),\s*vec!\[(.*?)\],?\s*\)", body, re.S)
    if not m:
        raise Lost("builder method %s: Instruction::new(..) with a vec![..] literal not found" % f.name)
    for om in re.finditer(r"dr::Operand::(\w+)\((\w+)(?:\.into\(\))?\)", m.group(3)):
        seq.append(("One", om.group(1), om.group(2)))
    n_lit = len([x for x in re.split(r",\s*", m.group(3).strip()) if x.strip()])
    if n_lit != len(seq):
        raise Lost("builder method %s: vec![..] literal has %d elements, %d lifted" % (f.name, n_lit, len(seq)))
    rest = body[m.end():]
    pos = 0
    pat = re.compile(
        r"if let Some\(v\) = (\w+) \{\s*inst\s*\.operands\s*\.push\(dr::Operand::(\w+)\(v(?:\.into\(\))?\)\);\s*\}"
        r"|inst\s*\.operands\s*\.extend\(\s*(\w+)\s*\.into_iter\(\)\s*\.map\(dr::Operand::(\w+)\),?\s*\);"
        r"|inst\s*\.operands\s*\.extend\((\w+)\);"
        r"|for v in (\w+) \{\s*inst\s*\.operands\s*\.push\((dr::Operand::(\w+)\(v\.0\)|v\.0)\);\s*inst\s*\.operands\s*\.push\(dr::Operand::(\w+)\(v\.1\)\);\s*\}", re.S)
    for pm in pat.finditer(rest):
        if pm.group(1):
            seq.append(("ZeroOrOne", pm.group(2), pm.group(1)))
        elif pm.group(3):
            seq.append(("ZeroOrMore", pm.group(4), pm.group(3)))
        elif pm.group(5):
            seq.append(("Extra", None, pm.group(5)))
        else:
            a = pm.group(8) or "raw"
            seq.append(("ZeroOrMore", "Pair:%s,%s" % (a, pm.group(9)), pm.group(6)))
    n_mut = len(re.findall(r"inst\s*\.operands\s*\.(push|extend)", rest))
    n_expected = sum(2 if e[1] and e[1].startswith("Pair:") else 1 for e in seq[len([x for x in seq if x[0] == "One"]):])
    n_any = len(re.findall(r"\binst\s*\.\s*(?!result_id\b)\w+", rest))  # every use of a field/method of `inst` after construction
    if n_mut != n_expected or n_any != n_mut:
        raise Lost("builder method %s: %d operand mutations (%d mentions of `operands`) in the text, %d lifted" % (f.name, n_mut, n_any, n_expected))
    rt = m.group(1).strip()
    rid = m.group(2).strip()
    return {"name": f.name, "op": op, "params": params, "seq": seq, "result_type": rt, "result_id": rid}


def lift_all():
    out = []
    for fpath in FILES:
        src = Source.get(fpath)
        for f in src.find_all("fn"):
            if f.parent is None or f.parent.kind != "impl" or f.parent.impl_of != "Builder":
                continue
            r = lift_method(f)
            if r is not None:
                r["file"] = fpath
                out.append(r)
    return out


if __name__ == "__main__":
    from .tables import parse_rows
    rows = {r["name"]: r for r in parse_rows("core")[0]}
    ms = lift_all()
    bad = 0
    for m in ms:
        row = rows[m["op"]]
        exp = [(q, variant_of_kind(k)) for k, q in row["operands"] if k not in ("IdResultType", "IdResult")]
        got = [(q, v) for q, v, p in m["seq"] if q != "Extra"]
        extras = [p for q, v, p in m["seq"] if q == "Extra"]
        # parameters must be used in signature order
        used = [p for q, v, p in m["seq"]]
        sigorder = [p for p in m["params"] if p in used]
        if got != exp or used != sigorder:
            bad += 1
            if bad <= 12:
                print(m["file"].split("/")[-1], m["name"], m["op"], "\n   got", m["seq"], "\n   exp", exp, "sig", m["params"])
    print(len(ms), "methods,", bad, "differ")
