"""unit table_glsl — see units/tables.py"""
from . import tables

NAME = "table_glsl"
RLIMIT = 100


def build(tier="quick", must_fail=False):
    return tables.build_table("glsl", tier, must_fail)


def describe():
    return tables.describe_table("glsl")


def witness(failure, ctx):
    return tables.witness_table("glsl", failure, ctx)
