"""`mod spirv` as seen by the units that *use* the spirv crate (decoder, parser, assembler, …).

* enum declarations: the real text (O1);
* `T::from_u32`: contract-only (external_body) with exactly the postcondition that unit
  `spirv_enums` discharges on the real bodies — callers are checked against the contract;
* bit-mask types (R2): `bitflags! { pub struct M: u32 { const A = v; … } }` becomes
  `struct M { bits_: u32 }` + the same constants + small fns with bitflags-2 semantics; the
  semantics (`from_bits(n)` is `Some` iff `n & !ALL == 0`, …) is the dependency contract that unit
  `kani_masks` proves on the real bitflags expansion for all u32.
"""
import re
from .common import Source, Piece, Lost, SPIRV, ENUM_DERIVE, ENUM_EQ, enum_variants
from .spirv_enums import ranges
from .kani_masks import mask_decls, all_bits


def emit(g, enums=None, masks=None, with_alias=True, from_u32=True, with_num=False):
    """emit `pub mod spirv { … }`. enums/masks: None = all."""
    src = Source.get(SPIRV)
    g.raw("pub mod spirv {")
    g.raw("use vstd::prelude::*;")
    g.raw("pub type Word = u32;")
    for c in ("MAGIC_NUMBER", "MAJOR_VERSION", "MINOR_VERSION", "REVISION"):
        g.emit(Piece(src.find("const", c)), name="spirv::" + c, under_contract=False)
    all_enums = src.find_all("enum")
    # single-variant enums first (Verus incompleteness, see units/spirv_enums.py)
    all_enums = sorted(all_enums, key=lambda e: 0 if len(enum_variants(e)) == 1 else 1)
    for e in all_enums:
        T = e.name
        if enums is not None and T not in enums:
            continue
        vs = enum_variants(e)
        g.raw(ENUM_DERIVE.rstrip("\n"))
        g.emit(Piece(e), name="enum " + T, under_contract=False)
        g.raw(ENUM_EQ % {"T": T})
        rs = ranges([v for _, v in vs])
        cond = " || ".join(("n == %d" % a) if a == b else ("(%d <= n && n <= %d)" % (a, b)) for a, b in rs)
        g.raw("pub open spec fn declared_%s(n: u32) -> bool { %s }" % (T, cond))
        if with_num:
            g.raw("// the number of a value (`v as u32`), opaque: big queries never see the cast\n"
                  "#[verifier::opaque]\npub open spec fn num_%s(v: %s) -> u32 { v as u32 }" % (T, T))
        if from_u32:
            g.raw("impl %s {\n"
                  "    // contract discharged on the real body by unit spirv_enums\n"
                  "    #[verifier::external_body]\n"
                  "    pub fn from_u32(n: u32) -> (r: Option<Self>)\n"
                  "        ensures (r is Some) <==> declared_%s(n), r matches Some(v) ==> v as u32 == n,\n"
                  "    { unimplemented!() }\n}" % (T, T))
        if with_alias:
            for imp in src.find_all("impl", lambda i: i.impl_of == T and i.impl_trait is None):
                if imp.children and all(c.kind == "const" for c in imp.children):
                    g.emit(Piece(imp), name="impl %s (alias consts)" % T, under_contract=False)
    for T, consts in mask_decls():
        if masks is not None and T not in masks:
            continue
        ALL = all_bits(consts)
        lines = ["// R2: bitflags! type %s (%d declared constants, ALL = %#x)" % (T, len(consts), ALL),
                 "#[derive(Clone, Copy, PartialEq, Eq)]",
                 "pub struct %s { pub bits_: u32 }" % T,
                 "impl vstd::std_specs::cmp::PartialEqSpecImpl for %s {" % T,
                 "    open spec fn obeys_eq_spec() -> bool { true }",
                 "    open spec fn eq_spec(&self, other: &Self) -> bool { *self == *other }",
                 "}",
                 "impl %s {" % T]
        for c, v in consts:
            lines.append("    pub const %s: %s = %s { bits_: %du32 };" % (c, T, T, v))
        lines += [
            "    pub open spec fn all_bits() -> u32 { %du32 }" % ALL,
            "    #[verifier::external_body]",
            "    pub fn from_bits(n: u32) -> (r: Option<%s>)" % T,
            "        ensures (r is Some) <==> (n & !%du32 == 0), r matches Some(v) ==> v.bits_ == n," % ALL,
            "    { unimplemented!() }",
            "    pub fn bits(&self) -> (r: u32) ensures r == self.bits_ { self.bits_ }",
            "    pub fn contains(&self, other: %s) -> (r: bool) ensures r == (self.bits_ & other.bits_ == other.bits_)" % T,
            "    { self.bits_ & other.bits_ == other.bits_ }",
            "    pub fn intersects(&self, other: %s) -> (r: bool) ensures r == (self.bits_ & other.bits_ != 0)" % T,
            "    { self.bits_ & other.bits_ != 0 }",
            "    pub fn is_empty(&self) -> (r: bool) ensures r == (self.bits_ == 0) { self.bits_ == 0 }",
            "    pub fn union(self, other: %s) -> (r: %s) ensures r.bits_ == self.bits_ | other.bits_ { %s { bits_: self.bits_ | other.bits_ } }" % (T, T, T),
            "}",
        ]
        g.raw("\n".join(lines))
        g.rewrites.append({"rule": "R2", "file": SPIRV, "line": 0, "before": "bitflags! { pub struct %s … }" % T,
                           "after": "struct %s { bits_: u32 } + consts + from_bits/bits/contains/intersects/is_empty" % T})
    g.raw("} // mod spirv")


ASSUMED = [
    "spirv::T::from_u32 contract (Some iff declared, value-as-u32 == n): assumed here, discharged by unit spirv_enums on the real bodies",
    "R2: bitflags-2 semantics of from_bits/bits/contains/intersects/is_empty/union(|) on the 15 mask types: dependency contract, proved by unit kani_masks (Kani, all u32, real expansion)",
]
