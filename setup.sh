#!/bin/sh
# Run once after a fresh restore, offline. Nothing is downloaded; the replay crate is built
# lazily by the checks (against /repo's working tree), so setup only verifies the tools exist.
set -e
cd "$(dirname "$0")"
command -v verus >/dev/null
command -v python3 >/dev/null
python3 -c "import sys; sys.path.insert(0,'tools'); import rsx, vrun"
mkdir -p .work evidence replays
echo "setup ok"
